#!/bin/bash
# tools/run_mutants.sh <tier> [pattern]  : runs every /verif/mutants/<cNN_*>.diff against its property's check
TIER="${1:-quick}"; PAT="${2:-}"
for f in /verif/mutants/*${PAT}*.diff; do
  n=$(basename "$f" .diff)
  id=$(echo "$n" | cut -c1-3 | tr a-z A-Z)
  /verif/tools/mutant_test.sh "$n" "$f" "$TIER" "$id"
done
