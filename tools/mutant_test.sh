#!/bin/bash
# tools/mutant_test.sh <name> <patch.diff|-R:commit> <tier> <ID>...
# Applies a patch to a scratch copy of /repo (never /repo itself), runs the given checks against
# it (VERIF_REPO / VERIF_OUT), prints one line per check, removes the copy.
set -u
NAME="$1"; PATCH="$2"; TIER="$3"; shift 3
D=/tmp/mut_$NAME
rm -rf "$D"; mkdir -p "$D"
git -C /repo archive HEAD | tar -x -C "$D"
if [[ "$PATCH" == -R:* ]]; then
  git -C /repo show "${PATCH#-R:}" | (cd "$D" && patch -R -p1 -s) || { echo "$NAME: revert failed"; exit 3; }
else
  (cd "$D" && patch -p1 -s < "$PATCH") || { echo "$NAME: patch failed"; exit 3; }
fi
for ID in "$@"; do
  OUT=$(cd /verif && VERIF_REPO="$D" VERIF_TARGET="${MUT_TARGET:-/tmp/mut_target}" VERIF_OUT="$D/out" ./check "$ID" "$TIER" 2>&1)
  RC=$?
  SIG=$(echo "$OUT" | grep -m1 "failure signature" | cut -c1-150)
  echo "$NAME $ID $TIER exit=$RC $(echo "$OUT" | head -1 | cut -c1-100) | $SIG"
  if [ "$RC" = 2 ]; then echo "$OUT" | tail -5; fi
done
rm -rf "$D"
