#!/usr/bin/env python3
"""mkmutant.py <name> <file> <old> <new> [<file> <old> <new> ...]
Writes /verif/mutants/<name>.diff: the given textual replacements applied to /repo's HEAD."""
import sys, subprocess, tempfile, os, shutil
name = sys.argv[1]; specs = sys.argv[2:]
d = tempfile.mkdtemp(prefix="mk_")
subprocess.check_call("git -C /repo archive HEAD | tar -x -C %s" % d, shell=True)
subprocess.check_call("cd %s && git init -q && git add -A && git -c user.email=a@b -c user.name=a commit -qm base" % d, shell=True)
for i in range(0, len(specs), 3):
    f, old, new = specs[i:i+3]
    p = os.path.join(d, f); s = open(p).read()
    if s.count(old) != 1:
        print("ERROR: %s: pattern occurs %d times in %s" % (name, s.count(old), f)); sys.exit(1)
    open(p, "w").write(s.replace(old, new))
out = subprocess.check_output("cd %s && git diff" % d, shell=True).decode()
open("/verif/mutants/%s.diff" % name, "w").write(out)
shutil.rmtree(d)
print("wrote", name, len(out.splitlines()), "lines")
