#!/bin/bash
# Regenerates /verif/reference/preflate-ref from the COMMITTED state of /repo (pinned commit +
# hook commit + recorded "fix:" commits). Run by hand only when a fix is recorded; never by a check.
set -eu
REF=/verif/reference/preflate-ref
REV="${1:-HEAD}"
rm -rf "$REF"
mkdir -p "$REF"
git -C /repo archive "$REV" src Cargo.toml | tar -x -C "$REF"
rm -f "$REF/src/main.rs"
# two copies of the same #[no_mangle] C symbols cannot be linked into one process
sed -i 's/^#\[no_mangle\]$/\/\/ (reference copy) no_mangle removed/' "$REF/src/lib.rs"
python3 - "$REF" <<'PY'
import sys,re
ref=sys.argv[1]
p=ref+'/Cargo.toml'; s=open(p).read()
s=s.replace('name = "preflate-rs"','name = "preflate-ref"')
s=re.sub(r'\[lib\]\ncrate-type = \["cdylib","lib"\]\n','[lib]\nname = "preflate_ref"\ncrate-type = ["lib"]\n',s)
s=re.sub(r'\[\[bin\]\]\nname = "preflate_util"\npath = "src/main.rs"\n','',s)
s=re.sub(r'\[dev-dependencies\].*?\n\n','',s,flags=re.S)
s=re.sub(r'\[profile.release\]\ndebug=true\n','',s)
open(p,'w').write(s)
PY
git -C /repo rev-parse "$REV" > "$REF/SOURCE_COMMIT"
echo "reference regenerated from /repo $(cat $REF/SOURCE_COMMIT)"
