#!/bin/bash
# tools/validate_seeded.sh <ID> <changeN> [skip-suite]
# Confirms a sub-agent's seeded change in a scratch worktree of /repo (never /repo itself):
#  applies patch.diff to HEAD, builds, runs the 59-test suite, runs the demo with the change
#  (must fail) and without it (must pass). Prints one summary line; log in /tmp/val_logs.
set -u
ID="$1"; CH="$2"; SKIP="${3:-}"
SRC=${SEEDED_DIR:-/tmp/seeded_out}/$ID/$CH
WT=/tmp/val_${ID}_$CH
LOG=/tmp/val_logs/${ID}_$CH.log
mkdir -p /tmp/val_logs
export CARGO_NET_OFFLINE=true CARGO_TARGET_DIR=${VAL_TARGET:-/tmp/val_target}
git -C /repo worktree remove --force "$WT" >/dev/null 2>&1; rm -rf "$WT"
git -C /repo worktree add --detach "$WT" HEAD >/dev/null 2>&1 || { echo "$ID $CH worktree-failed"; exit 3; }
cd "$WT"
{
APPLY=ok; git apply "$SRC/patch.diff" || APPLY=FAILED
BUILD=ok; cargo build --release --offline >/dev/null 2>&1 || BUILD=FAILED
SUITE=skipped
if [ -z "$SKIP" ]; then
  cargo test --workspace --no-fail-fast --offline > suite.log 2>&1
  P=$(grep "test result" suite.log | sed -E 's/.* ([0-9]+) passed; ([0-9]+) failed.*/\1 \2/' | awk '{p+=$1; f+=$2} END {print p" passed "f" failed"}')
  SUITE="$P"
fi
FEAT=""; grep -q "verif_hooks" "$SRC/demo.rs" && FEAT="--features verif"
cp "$SRC/demo.rs" tests/demo_seeded.rs
cargo test --offline $FEAT --test demo_seeded > demo_with.log 2>&1; RW=$?
git checkout -q -- src Cargo.toml
cargo test --offline $FEAT --test demo_seeded > demo_without.log 2>&1; RWO=$?
echo "$ID $CH apply=$APPLY build=$BUILD suite=[$SUITE] demo_with_change_exit=$RW demo_without_exit=$RWO"
} 2>&1 | tee "$LOG" | tail -1
cd /
git -C /repo worktree remove --force "$WT" >/dev/null 2>&1; rm -rf "$WT"
