//! Verification hooks (cargo feature `verif`). Additive only: nothing in this file is
//! compiled unless the feature is enabled, and no library code path calls into it.
//!
//! The hooks expose internal stages so that external property checks can drive them
//! directly:
//!  * `format_versions`        - the two format version constants
//!  * `parse_summary`          - DEFLATE parser only (classification of a stream)
//!  * `parse_and_rewrite`      - parser followed immediately by the block writer
//!  * `estimate`               - parameter estimator output as a flat vector
//!  * `roundtrip_with_params`  - analysis + reconstruction under a caller supplied vector
//!  * `cabac_roundtrip`        - correction codec on an arbitrary operation sequence

use std::io::Cursor;

use cabac::vp8::{VP8Reader, VP8Writer};

use crate::{
    add_policy_estimator::DictionaryAddPolicy,
    cabac_codec::{PredictionDecoderCabac, PredictionEncoderCabac},
    deflate_writer::DeflateWriter,
    hash_algorithm::HashAlgorithm,
    preflate_error::PreflateError,
    preflate_input::PreflateInput,
    preflate_parameter_estimator::{
        estimate_preflate_parameters, PreflateHuffStrategy, PreflateParameters, PreflateStrategy,
    },
    preflate_parse_config::MatchingType,
    preflate_token::{BlockType, PreflateToken},
    process::{decode_mispredictions, encode_mispredictions, parse_deflate},
    statistical_codec::{
        CodecCorrection, CodecMisprediction, PredictionDecoder, PredictionEncoder,
    },
    token_predictor::TokenPredictorParameters,
};

/// (COMPRESSED_WRAPPER_VERSION_1, FILE_VERSION)
pub fn format_versions() -> (u8, u16) {
    (
        crate::preflate_container::verif_wrapper_version(),
        crate::preflate_parameter_estimator::verif_file_version(),
    )
}

#[derive(Debug, Clone, Default, PartialEq, Eq)]
pub struct BlockSummary {
    /// 0 = stored, 1 = fixed huffman, 2 = dynamic huffman (the 2-bit BTYPE value)
    pub btype: u8,
    pub tokens: u32,
    pub references: u32,
    pub irregular258: u32,
    pub stored_len: u32,
    pub padding_bits: u8,
    pub num_literals: u32,
    pub num_dist: u32,
    pub num_code_lengths: u32,
    /// number of entries in the run-length coded dynamic header
    pub header_items: u32,
}

#[derive(Debug, Clone, Default)]
pub struct ParseSummary {
    pub consumed: usize,
    pub plain_text: Vec<u8>,
    pub eof_padding: u8,
    pub blocks: Vec<BlockSummary>,
    pub max_dist: u32,
    pub min_len: u32,
    pub max_len: u32,
}

fn summarize(contents: &crate::process::DeflateContents) -> ParseSummary {
    let mut s = ParseSummary {
        consumed: contents.compressed_size,
        plain_text: Vec::new(),
        eof_padding: contents.eof_padding,
        blocks: Vec::new(),
        max_dist: 0,
        min_len: u32::MAX,
        max_len: 0,
    };
    for b in contents.blocks.iter() {
        let mut bs = BlockSummary {
            btype: match b.block_type {
                BlockType::Stored => 0,
                BlockType::StaticHuff => 1,
                BlockType::DynamicHuff => 2,
            },
            tokens: b.tokens.len() as u32,
            stored_len: b.uncompressed.len() as u32,
            padding_bits: b.padding_bits,
            num_literals: b.huffman_encoding.num_literals as u32,
            num_dist: b.huffman_encoding.num_dist as u32,
            num_code_lengths: b.huffman_encoding.num_code_lengths as u32,
            header_items: b.huffman_encoding.lengths.len() as u32,
            ..Default::default()
        };
        for t in b.tokens.iter() {
            if let PreflateToken::Reference(r) = t {
                bs.references += 1;
                if r.get_irregular258() {
                    bs.irregular258 += 1;
                }
                s.max_dist = s.max_dist.max(r.dist());
                s.min_len = s.min_len.min(r.len());
                s.max_len = s.max_len.max(r.len());
            }
        }
        s.blocks.push(bs);
    }
    s
}

/// runs only the DEFLATE parser
pub fn parse_summary(compressed: &[u8]) -> Result<ParseSummary, PreflateError> {
    let contents = parse_deflate(compressed, 0)?;
    let mut s = summarize(&contents);
    s.plain_text = contents.plain_text;
    Ok(s)
}

/// runs the DEFLATE parser and hands the parsed blocks straight to the block writer,
/// with neither estimator nor predictor in between. Returns the re-serialised bytes
/// together with the parse summary.
pub fn parse_and_rewrite(compressed: &[u8]) -> Result<(Vec<u8>, ParseSummary), PreflateError> {
    let contents = parse_deflate(compressed, 0)?;
    let mut writer = DeflateWriter::new();
    let n = contents.blocks.len();
    for (i, b) in contents.blocks.iter().enumerate() {
        writer.encode_block(b, i + 1 == n)?;
    }
    writer.flush_with_padding(contents.eof_padding);
    let out = writer.detach_output();
    let mut s = summarize(&contents);
    s.plain_text = contents.plain_text;
    Ok((out, s))
}

/// number of entries of the flat parameter vector
pub const PARAM_LEN: usize = 18;

pub const P_STRATEGY: usize = 0;
pub const P_HUFF_STRATEGY: usize = 1;
pub const P_ZLIB_COMPATIBLE: usize = 2;
pub const P_WINDOW_BITS: usize = 3;
pub const P_HASH_ALGORITHM: usize = 4;
pub const P_HASH_SHIFT: usize = 5;
pub const P_HASH_MASK: usize = 6;
pub const P_MAX_TOKEN_COUNT: usize = 7;
pub const P_MAX_DIST_3_MATCHES: usize = 8;
pub const P_VERY_FAR_MATCHES: usize = 9;
pub const P_MATCHES_TO_START: usize = 10;
pub const P_GOOD_LENGTH: usize = 11;
pub const P_MAX_LAZY: usize = 12;
pub const P_NICE_LENGTH: usize = 13;
pub const P_MAX_CHAIN: usize = 14;
pub const P_MIN_LEN: usize = 15;
pub const P_ADD_POLICY: usize = 16;
pub const P_ADD_POLICY_LIMIT: usize = 17;

fn flatten(p: &PreflateParameters) -> Vec<u32> {
    let mut v = vec![0u32; PARAM_LEN];
    v[P_STRATEGY] = p.predictor.strategy as u32;
    v[P_HUFF_STRATEGY] = p.huff_strategy as u32;
    v[P_ZLIB_COMPATIBLE] = p.predictor.zlib_compatible as u32;
    v[P_WINDOW_BITS] = p.predictor.window_bits;
    let (h, shift, mask) = match p.predictor.hash_algorithm {
        HashAlgorithm::None => (0, 0, 0),
        HashAlgorithm::Zlib {
            hash_mask,
            hash_shift,
        } => (1, hash_shift, hash_mask as u32),
        HashAlgorithm::MiniZFast => (2, 0, 0),
        HashAlgorithm::Libdeflate4 => (3, 0, 0),
        HashAlgorithm::Libdeflate4Fast => (4, 0, 0),
        HashAlgorithm::ZlibNG => (5, 0, 0),
        HashAlgorithm::RandomVector => (6, 0, 0),
        HashAlgorithm::Crc32cHash => (7, 0, 0),
    };
    v[P_HASH_ALGORITHM] = h;
    v[P_HASH_SHIFT] = shift;
    v[P_HASH_MASK] = mask;
    v[P_MAX_TOKEN_COUNT] = p.predictor.max_token_count as u32;
    v[P_MAX_DIST_3_MATCHES] = p.predictor.max_dist_3_matches as u32;
    v[P_VERY_FAR_MATCHES] = p.predictor.very_far_matches_detected as u32;
    v[P_MATCHES_TO_START] = p.predictor.matches_to_start_detected as u32;
    match p.predictor.matching_type {
        MatchingType::Greedy => {}
        MatchingType::Lazy {
            good_length,
            max_lazy,
        } => {
            v[P_GOOD_LENGTH] = good_length as u32;
            v[P_MAX_LAZY] = max_lazy as u32;
        }
    }
    v[P_NICE_LENGTH] = p.predictor.nice_length;
    v[P_MAX_CHAIN] = p.predictor.max_chain;
    v[P_MIN_LEN] = p.predictor.min_len;
    let (a, l) = match p.predictor.add_policy {
        DictionaryAddPolicy::AddAll => (0, 0),
        DictionaryAddPolicy::AddFirst(l) => (1, l as u32),
        DictionaryAddPolicy::AddFirstAndLast(l) => (2, l as u32),
        DictionaryAddPolicy::AddFirstExcept4kBoundary => (3, 0),
        DictionaryAddPolicy::AddFirstWith32KBoundary => (4, 0),
    };
    v[P_ADD_POLICY] = a;
    v[P_ADD_POLICY_LIMIT] = l;
    v
}

fn unflatten(v: &[u32]) -> Option<PreflateParameters> {
    if v.len() != PARAM_LEN {
        return None;
    }
    Some(PreflateParameters {
        huff_strategy: match v[P_HUFF_STRATEGY] {
            0 => PreflateHuffStrategy::Dynamic,
            1 => PreflateHuffStrategy::Mixed,
            2 => PreflateHuffStrategy::Static,
            _ => return None,
        },
        predictor: TokenPredictorParameters {
            strategy: match v[P_STRATEGY] {
                0 => PreflateStrategy::Default,
                1 => PreflateStrategy::RleOnly,
                2 => PreflateStrategy::HuffOnly,
                3 => PreflateStrategy::Store,
                _ => return None,
            },
            zlib_compatible: v[P_ZLIB_COMPATIBLE] != 0,
            window_bits: v[P_WINDOW_BITS],
            hash_algorithm: match v[P_HASH_ALGORITHM] {
                0 => HashAlgorithm::None,
                1 => HashAlgorithm::Zlib {
                    hash_shift: v[P_HASH_SHIFT],
                    hash_mask: u16::try_from(v[P_HASH_MASK]).ok()?,
                },
                2 => HashAlgorithm::MiniZFast,
                3 => HashAlgorithm::Libdeflate4,
                4 => HashAlgorithm::Libdeflate4Fast,
                5 => HashAlgorithm::ZlibNG,
                6 => HashAlgorithm::RandomVector,
                7 => HashAlgorithm::Crc32cHash,
                _ => return None,
            },
            max_token_count: u16::try_from(v[P_MAX_TOKEN_COUNT]).ok()?,
            max_dist_3_matches: u16::try_from(v[P_MAX_DIST_3_MATCHES]).ok()?,
            very_far_matches_detected: v[P_VERY_FAR_MATCHES] != 0,
            matches_to_start_detected: v[P_MATCHES_TO_START] != 0,
            matching_type: if v[P_MAX_LAZY] > 0 {
                MatchingType::Lazy {
                    good_length: u16::try_from(v[P_GOOD_LENGTH]).ok()?,
                    max_lazy: u16::try_from(v[P_MAX_LAZY]).ok()?,
                }
            } else {
                MatchingType::Greedy
            },
            nice_length: v[P_NICE_LENGTH],
            max_chain: v[P_MAX_CHAIN],
            min_len: v[P_MIN_LEN],
            add_policy: match v[P_ADD_POLICY] {
                0 => DictionaryAddPolicy::AddAll,
                1 => DictionaryAddPolicy::AddFirst(u16::try_from(v[P_ADD_POLICY_LIMIT]).ok()?),
                2 => {
                    DictionaryAddPolicy::AddFirstAndLast(u16::try_from(v[P_ADD_POLICY_LIMIT]).ok()?)
                }
                3 => DictionaryAddPolicy::AddFirstExcept4kBoundary,
                4 => DictionaryAddPolicy::AddFirstWith32KBoundary,
                _ => return None,
            },
        },
    })
}

/// runs parser + parameter estimator and returns the estimate as a flat vector
pub fn estimate(compressed: &[u8]) -> Result<Vec<u32>, PreflateError> {
    let contents = parse_deflate(compressed, 0)?;
    let params = estimate_preflate_parameters(&contents.plain_text, &contents.blocks)?;
    Ok(flatten(&params))
}

#[derive(Debug, Clone)]
pub struct ParamRoundtrip {
    pub reconstructed: Vec<u8>,
    pub consumed: usize,
    pub plain_text: Vec<u8>,
    pub corrections: Vec<u8>,
    /// the parameter vector as read back from the correction data
    pub reread: Vec<u32>,
}

/// The bodies of decompress_deflate_stream (verify = false) and recompress_deflate_stream
/// with the estimator replaced by the caller's parameter vector. `None` means that the
/// vector is not representable as a `PreflateParameters` value at all.
pub fn roundtrip_with_params(
    compressed: &[u8],
    vector: &[u32],
) -> Option<Result<ParamRoundtrip, PreflateError>> {
    let params = unflatten(vector)?;
    Some(roundtrip_inner(compressed, &params))
}

/// Outcome of `roundtrip_with_params_staged`: tells an analysis failure (permitted: the
/// stream is rejected under these parameters) from a failure while reconstructing from
/// correction data that the analysis did produce.
#[derive(Debug, Clone)]
pub enum StagedRoundtrip {
    AnalysisErr(PreflateError),
    ReconstructErr {
        error: PreflateError,
        consumed: usize,
        corrections: Vec<u8>,
    },
    Done(ParamRoundtrip),
}

/// like `roundtrip_with_params`, but reports in which stage an error happened
pub fn roundtrip_with_params_staged(compressed: &[u8], vector: &[u32]) -> Option<StagedRoundtrip> {
    let params = unflatten(vector)?;
    let contents = match parse_deflate(compressed, 0) {
        Ok(c) => c,
        Err(e) => return Some(StagedRoundtrip::AnalysisErr(e)),
    };
    let mut cabac_encoded = Vec::new();
    {
        let mut cabac_encoder =
            PredictionEncoderCabac::new(VP8Writer::new(&mut cabac_encoded).unwrap());
        params.write(&mut cabac_encoder);
        if let Err(e) = encode_mispredictions(&contents, &params, &mut cabac_encoder) {
            return Some(StagedRoundtrip::AnalysisErr(e));
        }
        cabac_encoder.finish();
    }
    let mut cabac_decoder =
        PredictionDecoderCabac::new(VP8Reader::new(Cursor::new(&cabac_encoded[..])).unwrap());
    let reread = match PreflateParameters::read(&mut cabac_decoder) {
        Ok(r) => r,
        Err(e) => {
            return Some(StagedRoundtrip::ReconstructErr {
                error: e,
                consumed: contents.compressed_size,
                corrections: cabac_encoded.clone(),
            })
        }
    };
    match decode_mispredictions(
        &reread,
        PreflateInput::new(&contents.plain_text),
        &mut cabac_decoder,
    ) {
        Ok((reconstructed, _blocks)) => Some(StagedRoundtrip::Done(ParamRoundtrip {
            reconstructed,
            consumed: contents.compressed_size,
            plain_text: contents.plain_text,
            corrections: cabac_encoded,
            reread: flatten(&reread),
        })),
        Err(e) => Some(StagedRoundtrip::ReconstructErr {
            error: e,
            consumed: contents.compressed_size,
            corrections: cabac_encoded.clone(),
        }),
    }
}

fn roundtrip_inner(
    compressed: &[u8],
    params: &PreflateParameters,
) -> Result<ParamRoundtrip, PreflateError> {
    let contents = parse_deflate(compressed, 0)?;

    let mut cabac_encoded = Vec::new();
    {
        let mut cabac_encoder =
            PredictionEncoderCabac::new(VP8Writer::new(&mut cabac_encoded).unwrap());
        params.write(&mut cabac_encoder);
        encode_mispredictions(&contents, params, &mut cabac_encoder)?;
        cabac_encoder.finish();
    }

    let mut cabac_decoder =
        PredictionDecoderCabac::new(VP8Reader::new(Cursor::new(&cabac_encoded[..])).unwrap());
    let reread = PreflateParameters::read(&mut cabac_decoder)?;
    let (reconstructed, _blocks) = decode_mispredictions(
        &reread,
        PreflateInput::new(&contents.plain_text),
        &mut cabac_decoder,
    )?;

    Ok(ParamRoundtrip {
        reconstructed,
        consumed: contents.compressed_size,
        plain_text: contents.plain_text,
        corrections: cabac_encoded,
        reread: flatten(&reread),
    })
}

/// one operation of the correction codec
#[derive(Debug, Clone, Copy, PartialEq, Eq, Hash)]
pub enum CodecOp {
    /// fixed width value: (value, bits) with 1 <= bits <= 16 and value < 2^bits
    Value(u16, u8),
    /// misprediction flag in context 0..7
    Misprediction(u8, bool),
    /// correction value in context 0..10
    Correction(u8, u32),
}

pub const MISPREDICTION_CONTEXTS: u8 = CodecMisprediction::MAX as u8;
pub const CORRECTION_CONTEXTS: u8 = CodecCorrection::MAX as u8;

fn mis_ctx(c: u8) -> CodecMisprediction {
    match c {
        0 => CodecMisprediction::EOFMisprediction,
        1 => CodecMisprediction::LiteralPredictionWrong,
        2 => CodecMisprediction::ReferencePredictionWrong,
        3 => CodecMisprediction::IrregularLen258,
        4 => CodecMisprediction::TreeCodeCountMisprediction,
        5 => CodecMisprediction::LiteralCountMisprediction,
        6 => CodecMisprediction::DistanceCountMisprediction,
        _ => panic!("verif hook: misprediction context out of range"),
    }
}

fn corr_ctx(c: u8) -> CodecCorrection {
    match c {
        0 => CodecCorrection::TokenCount,
        1 => CodecCorrection::NonZeroPadding,
        2 => CodecCorrection::BlockTypeCorrection,
        3 => CodecCorrection::LenCorrection,
        4 => CodecCorrection::DistOnlyCorrection,
        5 => CodecCorrection::DistAfterLenCorrection,
        6 => CodecCorrection::TreeCodeBitLengthCorrection,
        7 => CodecCorrection::LDTypeCorrection,
        8 => CodecCorrection::RepeatCountCorrection,
        9 => CodecCorrection::LDBitLengthCorrection,
        _ => panic!("verif hook: correction context out of range"),
    }
}

/// encodes the operations with the production encoder (CABAC over VP8Writer), finishes,
/// and decodes with the production decoder driven by the same operation kinds.
/// Returns (encoded bytes, decoded operations).
pub fn cabac_roundtrip(ops: &[CodecOp]) -> (Vec<u8>, Vec<CodecOp>) {
    let mut buffer = Vec::new();
    {
        let mut enc = PredictionEncoderCabac::new(VP8Writer::new(&mut buffer).unwrap());
        for op in ops {
            match *op {
                CodecOp::Value(v, bits) => enc.encode_value(v, bits),
                CodecOp::Misprediction(c, v) => enc.encode_misprediction(mis_ctx(c), v),
                CodecOp::Correction(c, v) => enc.encode_correction(corr_ctx(c), v),
            }
        }
        enc.finish();
    }
    let mut out = Vec::with_capacity(ops.len());
    {
        let mut dec = PredictionDecoderCabac::new(VP8Reader::new(Cursor::new(&buffer[..])).unwrap());
        for op in ops {
            out.push(match *op {
                CodecOp::Value(_, bits) => CodecOp::Value(dec.decode_value(bits), bits),
                CodecOp::Misprediction(c, _) => {
                    CodecOp::Misprediction(c, dec.decode_misprediction(mis_ctx(c)))
                }
                CodecOp::Correction(c, _) => {
                    CodecOp::Correction(c, dec.decode_correction(corr_ctx(c)))
                }
            });
        }
    }
    (buffer, out)
}
