#![no_main]
// libFuzzer target for property C05: the semantic oracle of the property runs inside the target
// (see harness/src/fuzzglue.rs); first input byte: even = raw bytes, odd = generator DNA.
use libfuzzer_sys::fuzz_target;

fuzz_target!(|data: &[u8]| {
    pfv::fuzzglue::run("C05", data);
});
