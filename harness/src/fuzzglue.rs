//! Glue between libFuzzer targets and the property oracles. The first input byte selects
//! how the rest is interpreted: even = raw bytes handed to the oracle, odd = DNA for the
//! structure-aware generator of that property. A failure of the oracle (that is not a
//! listed known finding) panics, so that libFuzzer saves the input.

use crate::dna::Dna;
use crate::engine::*;
use crate::props;
use serde_json::Value;

thread_local! {
    static CTX: std::cell::RefCell<Option<Ctx>> = std::cell::RefCell::new(None);
}

fn with_ctx<R>(prop: &'static str, f: impl FnOnce(&mut Ctx) -> R) -> R {
    CTX.with(|c| {
        let mut c = c.borrow_mut();
        if c.is_none() {
            install_panic_hook();
            let mut ctx = Ctx::new(
                prop,
                RunCfg { tier: Tier::Thorough, seed: 0, shard: 0, nshards: 1, scale: 1.0 },
            );
            ctx.counting = false;
            *c = Some(ctx);
        }
        f(c.as_mut().unwrap())
    })
}

/// decode a fuzzer input into the replay document of the case it denotes
pub fn decode(prop: &str, data: &[u8]) -> Value {
    let (mode, rest) = match data.split_first() {
        Some((m, r)) => (*m, r),
        None => (0, &[][..]),
    };
    let raw = mode % 2 == 0;
    match prop {
        "C01" => {
            if raw {
                bytes_doc(rest)
            } else {
                bytes_doc(&crate::gen_file::gen_file_opts(&mut Dna::new(rest), true).bytes)
            }
        }
        "C10" => props::c10::doc_from_dna(rest),
        _ => {
            if raw {
                bytes_doc(rest)
            } else {
                // small cases only: executions under ASan + coverage instrumentation are ~10x slower
                let mut mix = if prop == "C05" { crate::gen_stream::MIX_ROBUST } else { crate::gen_stream::MIX_DEFAULT };
                mix.sizes = [45, 52, 3, 0];
                bytes_doc(&crate::gen_stream::gen_stream(&mut Dna::new(rest), &mix).bytes)
            }
        }
    }
}

pub fn run(prop: &'static str, data: &[u8]) {
    let def = props::find(prop).expect("property");
    let doc = decode(prop, data);
    let r = with_ctx(prop, |ctx| {
        let r = (def.replay)(&doc, ctx);
        match r {
            Err(f) if ctx.is_known(&f) => Ok(()),
            other => other,
        }
    });
    if let Err(f) = r {
        // restore the default hook so that libFuzzer prints the message
        let _ = std::panic::take_hook();
        panic!("PFV-FUZZ-FAIL sig={} detail={}", f.sig, f.detail);
    }
}
