//! My own reader of the expanded container format, written from the format description in
//! preflate_container.rs / idat_parse.rs (DESIGN.md A.4):
//!   01 | { 00 varint(n) n bytes
//!        | 01 varint(p) p bytes varint(c) c bytes
//!        | 02 {varint(sz != 0)}* 00 hdr[2] adler[4] varint(p) p bytes varint(c) c bytes }*
//! It is used to classify cases (chunk kinds, extents). A container the model cannot parse
//! is a harness problem, never a violation.

#[derive(Clone, Debug, PartialEq, Eq)]
pub enum ChunkKind {
    Literal,
    Deflate,
    Png,
}

#[derive(Clone, Debug)]
pub struct Chunk {
    pub kind: ChunkKind,
    /// offset of the tag byte in the container
    pub tag_off: usize,
    /// payload (literal bytes or plaintext) range in the container
    pub data_off: usize,
    pub data_len: usize,
    /// corrections range
    pub corr_off: usize,
    pub corr_len: usize,
    pub idat_sizes: Vec<u32>,
    pub zlib_hdr: [u8; 2],
    /// offset one past the chunk
    pub end: usize,
}

fn varint(e: &[u8], pos: &mut usize) -> Option<u32> {
    let mut result: u32 = 0;
    let mut shift = 0;
    loop {
        let b = *e.get(*pos)?;
        *pos += 1;
        if shift < 32 {
            result |= ((b & 0x7f) as u32) << shift;
        }
        shift += 7;
        if b & 0x80 == 0 {
            break;
        }
        if shift > 63 {
            return None;
        }
    }
    Some(result)
}

pub fn parse_container(e: &[u8]) -> Result<Vec<Chunk>, String> {
    if e.is_empty() {
        return Err("empty container".into());
    }
    if e[0] != 1 {
        return Err(format!("version byte {}", e[0]));
    }
    let mut pos = 1;
    let mut chunks = vec![];
    while pos < e.len() {
        let tag_off = pos;
        let tag = e[pos];
        pos += 1;
        match tag {
            0 => {
                let n = varint(e, &mut pos).ok_or("literal length")? as usize;
                if pos + n > e.len() {
                    return Err("literal runs past end".into());
                }
                chunks.push(Chunk {
                    kind: ChunkKind::Literal,
                    tag_off,
                    data_off: pos,
                    data_len: n,
                    corr_off: 0,
                    corr_len: 0,
                    idat_sizes: vec![],
                    zlib_hdr: [0, 0],
                    end: pos + n,
                });
                pos += n;
            }
            1 | 2 => {
                let mut idat_sizes = vec![];
                let mut zlib_hdr = [0u8; 2];
                if tag == 2 {
                    loop {
                        let s = varint(e, &mut pos).ok_or("idat size")?;
                        if s == 0 {
                            break;
                        }
                        idat_sizes.push(s);
                    }
                    if pos + 6 > e.len() {
                        return Err("idat header runs past end".into());
                    }
                    zlib_hdr = [e[pos], e[pos + 1]];
                    pos += 6;
                }
                let p = varint(e, &mut pos).ok_or("plain length")? as usize;
                if pos + p > e.len() {
                    return Err("plaintext runs past end".into());
                }
                let data_off = pos;
                pos += p;
                let c = varint(e, &mut pos).ok_or("corrections length")? as usize;
                if pos + c > e.len() {
                    return Err("corrections run past end".into());
                }
                let corr_off = pos;
                pos += c;
                chunks.push(Chunk {
                    kind: if tag == 1 { ChunkKind::Deflate } else { ChunkKind::Png },
                    tag_off,
                    data_off,
                    data_len: p,
                    corr_off,
                    corr_len: c,
                    idat_sizes,
                    zlib_hdr,
                    end: pos,
                });
            }
            t => return Err(format!("unknown tag {} at {}", t, tag_off)),
        }
    }
    Ok(chunks)
}

/// length in the original file that each chunk stands for; deflate chunks need the
/// recompressed length, supplied by `recompressed_len(plain, corrections)`.
pub fn file_extents(
    e: &[u8],
    chunks: &[Chunk],
    recompressed_len: &dyn Fn(&[u8], &[u8]) -> Option<usize>,
) -> Option<Vec<(usize, usize)>> {
    let mut pos = 0usize;
    let mut v = vec![];
    for c in chunks {
        let len = match c.kind {
            ChunkKind::Literal => c.data_len,
            ChunkKind::Deflate => recompressed_len(
                &e[c.data_off..c.data_off + c.data_len],
                &e[c.corr_off..c.corr_off + c.corr_len],
            )?,
            ChunkKind::Png => {
                c.idat_sizes.iter().map(|&s| s as usize + 12).sum::<usize>()
            }
        };
        v.push((pos, len));
        pos += len;
    }
    Some(v)
}
