//! Stream-level case generator shared by C02/C03/C04/C05/C07/C08/C14:
//! G-COMP, G-SYN, G-MUT (mutations of both) and G-NOISE.

use crate::dna::{Dna, Mix};
use crate::gen_comp::{gen_comp, Family};
use crate::gen_plain::{gen_plain, SIZE_DEFAULT};
use crate::gen_syn::{gen_syn, SynOpts};

#[derive(Clone, Debug)]
pub struct StreamCase {
    pub bytes: Vec<u8>,
    /// "comp" | "syn" | "mut" | "noise"
    pub source: &'static str,
    pub family: Option<Family>,
    pub labels: Vec<String>,
    /// plaintext the stream was produced from, when the bytes are an unmodified valid stream
    pub known_plain: Option<Vec<u8>>,
    /// length of the valid DEFLATE stream at the start of `bytes` (when known)
    pub stream_len: Option<usize>,
    pub desc: String,
}

#[derive(Clone, Copy)]
pub struct StreamMix {
    pub comp: u32,
    pub syn: u32,
    pub mutated: u32,
    pub noise: u32,
    pub sizes: [u32; 4],
}

pub const MIX_DEFAULT: StreamMix = StreamMix {
    comp: 45,
    syn: 35,
    mutated: 15,
    noise: 5,
    sizes: SIZE_DEFAULT,
};

/// only valid streams (C07/C08/C04/C14)
pub const MIX_VALID: StreamMix = StreamMix {
    comp: 50,
    syn: 50,
    mutated: 0,
    noise: 0,
    sizes: SIZE_DEFAULT,
};

/// robustness mix for C05
pub const MIX_ROBUST: StreamMix = StreamMix {
    comp: 25,
    syn: 25,
    mutated: 35,
    noise: 15,
    sizes: [30, 45, 20, 5],
};

pub fn mutate(dna: &mut Dna, base: &[u8], other: &[u8]) -> (Vec<u8>, String) {
    let mut v = base.to_vec();
    let n = dna.range(1, 4);
    let mut desc = String::new();
    for _ in 0..n {
        let kind = dna.below(9);
        let len = v.len();
        match kind {
            0 => {
                // bit flip
                if len > 0 {
                    let p = biased_pos(dna, len);
                    let b = dna.below(8);
                    v[p] ^= 1 << b;
                    desc.push_str(&format!("flip@{}.{} ", p, b));
                }
            }
            1 => {
                if len > 0 {
                    let p = biased_pos(dna, len);
                    v[p] = dna.u8();
                    desc.push_str(&format!("set@{} ", p));
                }
            }
            2 => {
                let p = biased_pos(dna, len + 1);
                v.truncate(p);
                desc.push_str(&format!("trunc@{} ", p));
            }
            3 => {
                let p = biased_pos(dna, len + 1);
                let k = dna.range(1, 8);
                let ins = dna.bytes(k);
                v.splice(p..p, ins);
                desc.push_str(&format!("ins@{}+{} ", p, k));
            }
            4 => {
                if len > 0 {
                    let p = biased_pos(dna, len);
                    let k = dna.range(1, 8).min(len - p);
                    v.drain(p..p + k);
                    desc.push_str(&format!("del@{}+{} ", p, k));
                }
            }
            5 => {
                // duplicate a slice
                if len > 1 {
                    let p = biased_pos(dna, len);
                    let k = dna.range(1, 64).min(len - p);
                    let sl = v[p..p + k].to_vec();
                    let q = biased_pos(dna, len + 1);
                    v.splice(q..q, sl);
                    desc.push_str(&format!("dup@{}+{}->{} ", p, k, q));
                }
            }
            6 => {
                // splice with another stream
                let p = biased_pos(dna, len + 1);
                let q = biased_pos(dna, other.len() + 1);
                v.truncate(p);
                v.extend_from_slice(&other[q..]);
                desc.push_str(&format!("splice@{}/{} ", p, q));
            }
            7 => {
                // header field tweak: first 1-3 bytes (block type bits, HLIT/HDIST/HCLEN)
                if len > 0 {
                    let p = dna.below(len.min(4));
                    v[p] = v[p].wrapping_add(dna.range(1, 255) as u8);
                    desc.push_str(&format!("hdr@{} ", p));
                }
            }
            _ => {
                // zero a range
                if len > 0 {
                    let p = biased_pos(dna, len);
                    let k = dna.range(1, 16).min(len - p);
                    for x in &mut v[p..p + k] {
                        *x = 0;
                    }
                    desc.push_str(&format!("zero@{}+{} ", p, k));
                }
            }
        }
    }
    (v, desc)
}

/// position biased to the start (headers) and the end (final blocks) of the data
fn biased_pos(dna: &mut Dna, n: usize) -> usize {
    if n == 0 {
        return 0;
    }
    match dna.below(4) {
        0 => dna.below(n.min(16)),
        1 => n - 1 - dna.below(n.min(16)),
        _ => dna.below(n),
    }
}

pub fn gen_noise(dna: &mut Dna) -> (Vec<u8>, String) {
    let kind = dna.below(5);
    if kind == 4 {
        return (crate::gen_syn::degenerate_dynamic_block(dna), "noise:degenerate-dynamic-header".into());
    }
    let n = match dna.weighted(&[40, 40, 20]) {
        0 => dna.range(0, 16),
        1 => dna.range(16, 300),
        _ => dna.range(300, 5000),
    };
    let seed = dna.u64();
    let mut mix = Mix::new(seed);
    let mut v: Vec<u8> = Vec::with_capacity(n + 8);
    match kind {
        0 => {
            // raw noise straight from DNA for short strings, expander for long ones
            if n <= 32 {
                v = dna.bytes(n);
            } else {
                v.extend((0..n).map(|_| mix.u8()));
            }
            (v, "noise:raw".into())
        }
        1 => {
            // fixed-huffman block header then noise
            let last = mix.below(2) as u8;
            v.push(last | (1 << 1) | (mix.u8() << 3));
            v.extend((0..n).map(|_| mix.u8()));
            (v, "noise:fixed-header".into())
        }
        2 => {
            // a syntactically valid dynamic header (from G-SYN on a tiny text) followed by noise
            let s = gen_syn(
                dna,
                &SynOpts {
                    exotic_pct: 0,
                    trailing_garbage_pct: 0,
                    max_plain: 2000,
                },
            );
            let cut = if s.stream_len > 4 {
                mix.range(3, s.stream_len.min(200))
            } else {
                s.stream_len
            };
            v.extend_from_slice(&s.bytes[..cut]);
            v.extend((0..n).map(|_| mix.u8()));
            (v, "noise:syn-prefix".into())
        }
        _ => {
            // stored block header with random LEN/NLEN relation
            let last = mix.below(2) as u8;
            v.push(last | (mix.u8() << 3));
            let len = mix.below(n + 1) as u16;
            v.extend_from_slice(&len.to_le_bytes());
            if mix.chance(80) {
                v.extend_from_slice(&(!len).to_le_bytes());
            } else {
                v.extend_from_slice(&[mix.u8(), mix.u8()]);
            }
            v.extend((0..n).map(|_| mix.u8()));
            (v, "noise:stored-header".into())
        }
    }
}

fn gen_valid(dna: &mut Dna, sizes: &[u32; 4], want_syn: bool) -> StreamCase {
    if want_syn {
        let mut so = SynOpts::default();
        if sizes[3] == 0 {
            so.max_plain = if sizes[2] <= 5 { 3_000 } else { 45_000 };
        }
        let s = gen_syn(dna, &so);
        let mut labels: Vec<String> = s.features.labels().iter().map(|x| x.to_string()).collect();
        labels.push(format!("syn:mode-{}", s.features.mode));
        StreamCase {
            desc: format!(
                "syn {} tokens={} refs={} blocks={}",
                s.features.mode, s.features.tokens, s.features.references, s.features.blocks
            ),
            known_plain: if s.zlib_should_accept && !s.features.poisoned {
                Some(s.plain)
            } else {
                None
            },
            stream_len: if s.features.poisoned { None } else { Some(s.stream_len) },
            bytes: s.bytes,
            source: "syn",
            family: None,
            labels,
        }
    } else {
        let plain = gen_plain(dna, sizes);
        let (bytes, choice) = gen_comp(dna, &plain);
        StreamCase {
            stream_len: Some(bytes.len()),
            bytes,
            source: "comp",
            labels: vec![format!("comp:{}", choice.family.name())],
            family: Some(choice.family),
            known_plain: Some(plain),
            desc: choice.desc,
        }
    }
}

pub fn gen_stream(dna: &mut Dna, mix: &StreamMix) -> StreamCase {
    match dna.weighted(&[mix.comp, mix.syn, mix.mutated, mix.noise]) {
        0 => gen_valid(dna, &mix.sizes, false),
        1 => gen_valid(dna, &mix.sizes, true),
        2 => {
            let small = [35, 50, 14, 1];
            let syn_a = dna.bool();
            let a = gen_valid(dna, &small, syn_a);
            let syn_b = dna.bool();
            let b = gen_valid(dna, &small, syn_b);
            let (bytes, d) = mutate(dna, &a.bytes, &b.bytes);
            StreamCase {
                bytes,
                source: "mut",
                family: None,
                labels: vec![format!("mut:of-{}", a.source)],
                known_plain: None,
                stream_len: None,
                desc: format!("mut[{}] of {}", d.trim(), a.desc),
            }
        }
        _ => {
            let (bytes, d) = gen_noise(dna);
            StreamCase {
                bytes,
                source: "noise",
                family: None,
                labels: vec![d.clone()],
                known_plain: None,
                stream_len: None,
                desc: d,
            }
        }
    }
}
