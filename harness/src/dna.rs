//! "DNA": the byte string every generated case is decoded from. proptest (or libFuzzer)
//! owns the bytes; the decoders below are pure functions of them. When the bytes run out
//! every read returns 0, which is always the "simplest" choice, so shrinking the DNA
//! (shorter, bytes towards 0) simplifies the case.

pub struct Dna<'a> {
    data: &'a [u8],
    pos: usize,
}

impl<'a> Dna<'a> {
    pub fn new(data: &'a [u8]) -> Self {
        Dna { data, pos: 0 }
    }

    pub fn exhausted(&self) -> bool {
        self.pos >= self.data.len()
    }

    pub fn u8(&mut self) -> u8 {
        let v = self.data.get(self.pos).copied().unwrap_or(0);
        self.pos += 1;
        v
    }

    pub fn u16(&mut self) -> u16 {
        let a = self.u8() as u16;
        let b = self.u8() as u16;
        a | (b << 8)
    }

    pub fn u32(&mut self) -> u32 {
        let a = self.u16() as u32;
        let b = self.u16() as u32;
        a | (b << 16)
    }

    pub fn u64(&mut self) -> u64 {
        let a = self.u32() as u64;
        let b = self.u32() as u64;
        a | (b << 32)
    }

    pub fn bool(&mut self) -> bool {
        self.u8() & 1 == 1
    }

    /// uniform-ish index in 0..n, monotone in the DNA value (0 -> 0) so that shrinking works
    pub fn below(&mut self, n: usize) -> usize {
        if n <= 1 {
            return 0;
        }
        if n <= 256 {
            (self.u8() as usize * n) >> 8
        } else {
            ((self.u32() as u64 * n as u64) >> 32) as usize
        }
    }

    /// value in lo..=hi
    pub fn range(&mut self, lo: usize, hi: usize) -> usize {
        debug_assert!(lo <= hi);
        lo + self.below(hi - lo + 1)
    }

    /// true with probability pct/100 (false when DNA is exhausted)
    pub fn chance(&mut self, pct: u32) -> bool {
        // high byte values trigger the rarer branch so that 0 stays the default
        let v = self.u8() as u32;
        v >= 256 - (256 * pct.min(100)) / 100 && pct > 0
    }

    /// weighted choice; returns index into weights (index 0 when exhausted)
    pub fn weighted(&mut self, weights: &[u32]) -> usize {
        let total: u32 = weights.iter().sum();
        if total == 0 {
            return 0;
        }
        let mut r = ((self.u16() as u64 * total as u64) >> 16) as u32;
        for (i, w) in weights.iter().enumerate() {
            if r < *w {
                return i;
            }
            r -= *w;
        }
        weights.len() - 1
    }

    pub fn bytes(&mut self, n: usize) -> Vec<u8> {
        (0..n).map(|_| self.u8()).collect()
    }

    /// rest of the DNA (may be empty)
    pub fn rest(&mut self) -> &'a [u8] {
        let r = if self.pos < self.data.len() {
            &self.data[self.pos..]
        } else {
            &[]
        };
        self.pos = self.data.len();
        r
    }
}

/// splitmix64: stateless expander for sub-seeds taken from the DNA. All entropy still comes
/// from the DNA; this only stretches 8 bytes of it into a long deterministic sequence.
#[derive(Clone)]
pub struct Mix(pub u64);

impl Mix {
    pub fn new(seed: u64) -> Self {
        Mix(seed)
    }
    pub fn next(&mut self) -> u64 {
        self.0 = self.0.wrapping_add(0x9E3779B97F4A7C15);
        let mut z = self.0;
        z = (z ^ (z >> 30)).wrapping_mul(0xBF58476D1CE4E5B9);
        z = (z ^ (z >> 27)).wrapping_mul(0x94D049BB133111EB);
        z ^ (z >> 31)
    }
    pub fn below(&mut self, n: usize) -> usize {
        if n <= 1 {
            return 0;
        }
        ((self.next() >> 32) * n as u64 >> 32) as usize
    }
    pub fn range(&mut self, lo: usize, hi: usize) -> usize {
        lo + self.below(hi - lo + 1)
    }
    pub fn chance(&mut self, pct: u32) -> bool {
        (self.next() >> 40) % 100 < pct as u64
    }
    pub fn u8(&mut self) -> u8 {
        (self.next() >> 56) as u8
    }
}

pub fn fnv64(data: &[u8]) -> u64 {
    let mut h: u64 = 0xcbf29ce484222325;
    for b in data {
        h ^= *b as u64;
        h = h.wrapping_mul(0x100000001b3);
    }
    // final avalanche
    h ^= h >> 32;
    h = h.wrapping_mul(0x9E3779B97F4A7C15);
    h ^ (h >> 29)
}

pub fn hex(data: &[u8]) -> String {
    let mut s = String::with_capacity(data.len() * 2);
    for b in data {
        s.push_str(&format!("{:02x}", b));
    }
    s
}

pub fn unhex(s: &str) -> Option<Vec<u8>> {
    let s = s.trim();
    if s.len() % 2 != 0 {
        return None;
    }
    (0..s.len() / 2)
        .map(|i| u8::from_str_radix(&s[2 * i..2 * i + 2], 16).ok())
        .collect()
}

pub fn hex_trunc(data: &[u8], max: usize) -> String {
    if data.len() <= max {
        hex(data)
    } else {
        format!("{}..(+{} bytes)", hex(&data[..max]), data.len() - max)
    }
}
