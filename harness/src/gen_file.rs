//! G-FILE: container-level inputs. Files are sequences of segments: junk, signature
//! look-alikes, and DEFLATE streams wrapped as zlib / gzip / ZIP local file / PNG IDAT,
//! followed by optional file-level mutations.

use crate::dna::{Dna, Mix};
use crate::gen_comp::{adler32, gen_comp};
use crate::gen_plain::gen_plain_sized;
use crate::gen_syn::{gen_syn, SynOpts};

#[derive(Clone, Debug)]
pub struct Embedded {
    /// "zlib" | "gzip" | "zip" | "png"
    pub wrapper: &'static str,
    pub variant: String,
    /// offset of the first byte of the wrapper in the file
    pub wrapper_start: usize,
    /// offset / length of the raw DEFLATE bytes (for png: of the first IDAT length field / all chunks)
    pub stream_start: usize,
    pub stream_len: usize,
    pub plain: Vec<u8>,
    pub stream: Vec<u8>,
}

#[derive(Clone, Debug)]
pub struct FileCase {
    pub bytes: Vec<u8>,
    pub desc: String,
    pub labels: Vec<String>,
    pub embedded: Vec<Embedded>,
    pub mutated: bool,
}

pub const ZLIB_HEADERS: [[u8; 2]; 4] = [[0x78, 0x01], [0x78, 0x5E], [0x78, 0x9C], [0x78, 0xDA]];

/// bytes that cannot start any of the scanner's two-byte signatures
pub fn safe_junk_byte(m: &mut Mix) -> u8 {
    loop {
        let b = m.u8();
        if b != 0x78 && b != 0x50 && b != 0x1F && b != 0x49 {
            return b;
        }
    }
}

pub fn junk(dna: &mut Dna, safe: bool, max: usize) -> Vec<u8> {
    let n = match dna.weighted(&[30, 50, 20]) {
        0 => 0,
        1 => dna.range(1, 40.min(max.max(1))),
        _ => dna.range(1, max.max(1)),
    };
    let mut m = Mix::new(dna.u64());
    (0..n)
        .map(|_| if safe { safe_junk_byte(&mut m) } else { m.u8() })
        .collect()
}

/// plaintext sizes straddle the scanner's 1024 byte acceptance threshold
pub fn pick_embedded_plain_size(dna: &mut Dna) -> usize {
    match dna.weighted(&[25, 43, 18, 10, 4]) {
        0 => dna.range(1000, 1100),
        1 => dna.range(1100, 8 * 1024),
        2 => dna.range(8 * 1024, 40 * 1024),
        3 => dna.range(0, 1000),
        // large: compressed payloads beyond 64 KiB (IDAT chunks >= 65536 bytes)
        _ => dna.range(70 * 1024, 220 * 1024),
    }
}

/// a raw DEFLATE stream for embedding, with its plaintext
pub fn gen_embedded_stream(dna: &mut Dna, allow_syn: bool, size: usize) -> (Vec<u8>, Vec<u8>, String) {
    if allow_syn && dna.chance(20) {
        let s = gen_syn(
            dna,
            &SynOpts {
                exotic_pct: 0,
                trailing_garbage_pct: 0,
                max_plain: if size <= 4_100 { 12_000 } else { 100_000 },
            },
        );
        let stream = s.bytes[..s.stream_len].to_vec();
        (stream, s.plain, "syn".into())
    } else {
        let plain = gen_plain_sized(dna, size);
        let (stream, choice) = gen_comp(dna, &plain);
        (stream, plain, choice.desc)
    }
}

pub fn wrap_zlib(out: &mut Vec<u8>, hdr: [u8; 2], stream: &[u8], plain: &[u8]) -> (usize, usize) {
    wrap_zlib_trailer(out, hdr, stream, plain, 4)
}

/// `trailer` = how many of the 4 Adler-32 bytes are written (0..=4)
pub fn wrap_zlib_trailer(out: &mut Vec<u8>, hdr: [u8; 2], stream: &[u8], plain: &[u8], trailer: usize) -> (usize, usize) {
    out.extend_from_slice(&hdr);
    let start = out.len();
    out.extend_from_slice(stream);
    out.extend_from_slice(&adler32(plain).to_be_bytes()[..trailer.min(4)]);
    (start, stream.len())
}

/// "seam" case: a zlib-wrapped stored stream whose last k plaintext bytes double as the high
/// bytes of the length field of an IDAT chunk that follows immediately (the PNG chunk's
/// length field overlaps the tail of the previous stream).
pub fn seam_idat(out: &mut Vec<u8>, dna: &mut Dna) -> (Embedded, Embedded) {
    let k = dna.range(1, 3);
    let n2 = dna.range(1100, 3000);
    let plain2 = gen_plain_sized(dna, n2);
    let stream2 = crate::gen_comp::zlib_deflate_raw(&plain2, &crate::gen_comp::ZCfg::simple(dna.range(1, 9) as i32)).unwrap();
    let mut payload = vec![0x78, 0x9c];
    payload.extend_from_slice(&stream2);
    payload.extend_from_slice(&adler32(&plain2).to_be_bytes());
    let len_be = (payload.len() as u32).to_be_bytes();
    let n1 = dna.range(1100, 2500);
    let mut plain1 = gen_plain_sized(dna, n1);
    let l1 = plain1.len();
    plain1[l1 - k..].copy_from_slice(&len_be[..k]);
    // level 0 = one final stored block that ends with the plaintext's last bytes
    let stream1 = crate::gen_comp::zlib_deflate_raw(&plain1, &crate::gen_comp::ZCfg::simple(0)).unwrap();
    let w1 = out.len();
    let (s1, l1s) = wrap_zlib_trailer(out, [0x78, 0x01], &stream1, &plain1, 0);
    let w2 = out.len() - k;
    out.extend_from_slice(&len_be[k..]);
    out.extend_from_slice(b"IDAT");
    out.extend_from_slice(&payload);
    let mut h = crc32fast::Hasher::new();
    h.update(b"IDAT");
    h.update(&payload);
    out.extend_from_slice(&h.finalize().to_be_bytes());
    let total = 12 + payload.len();
    (
        Embedded { wrapper: "zlib", variant: "7801 stored, no adler".into(), wrapper_start: w1, stream_start: s1, stream_len: l1s, plain: plain1, stream: stream1 },
        Embedded { wrapper: "png", variant: format!("length field overlaps previous stream by {}", k), wrapper_start: w2, stream_start: w2, stream_len: total, plain: plain2, stream: stream2 },
    )
}

pub struct GzipOpts {
    pub flags: u8, // FTEXT 1, FHCRC 2, FEXTRA 4, FNAME 8, FCOMMENT 16
    pub extra: Vec<u8>,
    pub name: Vec<u8>,
    pub comment: Vec<u8>,
}

pub fn gen_gzip_opts(dna: &mut Dna) -> GzipOpts {
    let sub = dna.below(16) as u8; // subset of FEXTRA/FNAME/FCOMMENT/FHCRC
    let mut flags = 0u8;
    if sub & 1 != 0 {
        flags |= 4;
    }
    if sub & 2 != 0 {
        flags |= 8;
    }
    if sub & 4 != 0 {
        flags |= 16;
    }
    if sub & 8 != 0 {
        flags |= 2;
    }
    if dna.chance(20) {
        flags |= 1;
    }
    let mut m = Mix::new(dna.u64());
    let xlen = match m.below(4) {
        0 => 0,
        1 => m.range(1, 9),
        2 => m.range(1, 301) | 1, // odd lengths
        _ => m.range(256, 700),
    };
    let extra: Vec<u8> = (0..xlen).map(|_| m.u8()).collect();
    let nz = |m: &mut Mix| loop {
        let b = m.u8();
        if b != 0 {
            return b;
        }
    };
    let nl = m.range(0, 40);
    let name: Vec<u8> = (0..nl).map(|_| nz(&mut m)).collect();
    let cl = m.range(0, 80);
    let comment: Vec<u8> = (0..cl).map(|_| nz(&mut m)).collect();
    GzipOpts {
        flags,
        extra,
        name,
        comment,
    }
}

pub fn wrap_gzip(out: &mut Vec<u8>, o: &GzipOpts, stream: &[u8], plain: &[u8], m: &mut Mix) -> (usize, usize) {
    out.extend_from_slice(&[0x1f, 0x8b, 8, o.flags]);
    out.extend_from_slice(&[m.u8(), m.u8(), m.u8(), m.u8()]); // mtime
    out.push([0u8, 2, 4][m.below(3)]); // xfl
    out.push([0u8, 3, 255][m.below(3)]); // os
    if o.flags & 4 != 0 {
        out.extend_from_slice(&(o.extra.len() as u16).to_le_bytes());
        out.extend_from_slice(&o.extra);
    }
    if o.flags & 8 != 0 {
        out.extend_from_slice(&o.name);
        out.push(0);
    }
    if o.flags & 16 != 0 {
        out.extend_from_slice(&o.comment);
        out.push(0);
    }
    if o.flags & 2 != 0 {
        out.extend_from_slice(&[m.u8(), m.u8()]);
    }
    let start = out.len();
    out.extend_from_slice(stream);
    out.extend_from_slice(&crc32fast::hash(plain).to_le_bytes());
    out.extend_from_slice(&(plain.len() as u32).to_le_bytes());
    (start, stream.len())
}

pub struct ZipOpts {
    /// bytes between the end of the deflate stream and the declared end of the member
    /// (the header's compressed size covers them)
    pub pad: usize,
    pub name_len: usize,
    pub extra_len: usize,
    pub data_descriptor: bool,
    pub method: u16,
    pub central_dir: bool,
    /// 0 = none; 1..=4: 32-bit size fields masked with 0xFFFFFFFF and a Zip64 extended
    /// information record (id 0x0001) of 16 / 8 / 24 / 28 data bytes in front of the extra field
    pub zip64: u8,
}

pub fn gen_zip_opts(dna: &mut Dna) -> ZipOpts {
    ZipOpts {
        pad: if dna.chance(8) { dna.range(1, 9) } else { 0 },
        name_len: match dna.below(3) {
            0 => 0,
            1 => dna.range(1, 20),
            _ => dna.range(20, 300),
        },
        extra_len: match dna.below(3) {
            0 => 0,
            1 => dna.range(1, 36),
            _ => dna.range(36, 300),
        },
        data_descriptor: dna.chance(30),
        method: 8,
        central_dir: dna.chance(50),
        zip64: if dna.chance(12) { dna.range(1, 4) as u8 } else { 0 },
    }
}

pub fn wrap_zip(out: &mut Vec<u8>, o: &ZipOpts, stream: &[u8], plain: &[u8], m: &mut Mix) -> (usize, usize) {
    let hdr_off = out.len();
    let crc = crc32fast::hash(plain);
    // member names: ASCII, legacy code pages (any byte >= 0x80: not valid UTF-8 in general), or
    // valid multi-byte UTF-8
    let name_style = m.below(10);
    let mut name: Vec<u8> = Vec::with_capacity(o.name_len);
    while name.len() < o.name_len {
        match name_style {
            0..=4 => name.push(b'a' + (m.below(26) as u8)),
            5..=7 => {
                if m.chance(35) {
                    name.push(0x80 + m.below(128) as u8);
                } else {
                    name.push(b'a' + (m.below(26) as u8));
                }
            }
            8 => {
                let ch = ['\u{e9}', '\u{fc}', '\u{4e2d}', '\u{1f600}', 'x', '/', '.'][m.below(7)];
                let mut buf = [0u8; 4];
                let enc = ch.encode_utf8(&mut buf).as_bytes();
                if name.len() + enc.len() <= o.name_len {
                    name.extend_from_slice(enc);
                } else {
                    name.push(b'_');
                }
            }
            _ => name.push(safe_junk_byte(m)),
        }
    }
    let mut extra: Vec<u8> = (0..o.extra_len).map(|_| m.u8()).collect();
    let zip64 = if o.data_descriptor { 0 } else { o.zip64 };
    if zip64 != 0 {
        // Zip64 extended information: uncompressed size, compressed size [, header offset [, disk]]
        let mut rec: Vec<u8> = vec![0x01, 0x00];
        let data_len: u16 = [16, 8, 24, 28][(zip64 - 1) as usize % 4];
        rec.extend_from_slice(&data_len.to_le_bytes());
        rec.extend_from_slice(&(plain.len() as u64).to_le_bytes());
        if data_len >= 16 {
            rec.extend_from_slice(&((stream.len() + o.pad) as u64).to_le_bytes());
        }
        if data_len >= 24 {
            rec.extend_from_slice(&(hdr_off as u64).to_le_bytes());
        }
        if data_len >= 28 {
            rec.extend_from_slice(&0u32.to_le_bytes());
        }
        if m.chance(30) {
            // another well-formed record in front (extended timestamp, 5 data bytes)
            let mut ts: Vec<u8> = vec![0x55, 0x54, 5, 0, 1];
            ts.extend_from_slice(&[m.u8(), m.u8(), m.u8(), m.u8()]);
            ts.extend_from_slice(&rec);
            rec = ts;
        }
        rec.extend_from_slice(&extra);
        extra = rec;
    }
    // general purpose flags: bit 3 follows the layout; bits 1-2 (compression option) and bit 11
    // (language encoding: names are UTF-8) are free for a method-8 member and are set whatever the
    // name bytes are (archivers that set bit 11 unconditionally, names cut at a length limit).
    // Bit 0 / 6 / 13 (encryption) are never set: such a member's data is not a DEFLATE stream.
    let mut flag: u16 = if o.data_descriptor { 8 } else { 0 };
    if m.chance(40) {
        flag |= 0x0800;
    }
    if m.chance(25) {
        flag |= (m.below(4) as u16) << 1;
    }
    let version: u16 = [20u16, 20, 10, 45, 63, 0x0314][m.below(6)];
    out.extend_from_slice(&0x04034b50u32.to_le_bytes());
    out.extend_from_slice(&version.to_le_bytes());
    out.extend_from_slice(&flag.to_le_bytes());
    out.extend_from_slice(&o.method.to_le_bytes());
    out.extend_from_slice(&[m.u8(), m.u8(), m.u8(), m.u8()]); // time/date
    if o.data_descriptor {
        out.extend_from_slice(&[0; 12]);
    } else {
        out.extend_from_slice(&crc.to_le_bytes());
        if zip64 == 2 {
            // only the uncompressed size is moved to the Zip64 record
            out.extend_from_slice(&((stream.len() + o.pad) as u32).to_le_bytes());
            out.extend_from_slice(&0xFFFF_FFFFu32.to_le_bytes());
        } else if zip64 != 0 {
            out.extend_from_slice(&0xFFFF_FFFFu32.to_le_bytes());
            out.extend_from_slice(&0xFFFF_FFFFu32.to_le_bytes());
        } else {
            out.extend_from_slice(&((stream.len() + o.pad) as u32).to_le_bytes());
            out.extend_from_slice(&(plain.len() as u32).to_le_bytes());
        }
    }
    out.extend_from_slice(&(name.len() as u16).to_le_bytes());
    out.extend_from_slice(&(extra.len() as u16).to_le_bytes());
    out.extend_from_slice(&name);
    out.extend_from_slice(&extra);
    let start = out.len();
    out.extend_from_slice(stream);
    for _ in 0..o.pad {
        out.push(safe_junk_byte(m));
    }
    if o.data_descriptor {
        if m.chance(50) {
            out.extend_from_slice(&0x08074b50u32.to_le_bytes());
        }
        out.extend_from_slice(&crc.to_le_bytes());
        out.extend_from_slice(&(stream.len() as u32).to_le_bytes());
        out.extend_from_slice(&(plain.len() as u32).to_le_bytes());
    }
    if o.central_dir {
        let cd_off = out.len();
        out.extend_from_slice(&0x02014b50u32.to_le_bytes());
        out.extend_from_slice(&[20, 0, 20, 0]);
        out.extend_from_slice(&flag.to_le_bytes());
        out.extend_from_slice(&o.method.to_le_bytes());
        out.extend_from_slice(&[0; 4]);
        out.extend_from_slice(&crc.to_le_bytes());
        out.extend_from_slice(&(stream.len() as u32).to_le_bytes());
        out.extend_from_slice(&(plain.len() as u32).to_le_bytes());
        out.extend_from_slice(&(name.len() as u16).to_le_bytes());
        out.extend_from_slice(&[0; 12]);
        out.extend_from_slice(&(hdr_off as u32).to_le_bytes());
        out.extend_from_slice(&name);
        let cd_len = out.len() - cd_off;
        out.extend_from_slice(&0x06054b50u32.to_le_bytes());
        out.extend_from_slice(&[0, 0, 0, 0, 1, 0, 1, 0]);
        out.extend_from_slice(&(cd_len as u32).to_le_bytes());
        out.extend_from_slice(&(cd_off as u32).to_le_bytes());
        out.extend_from_slice(&[0, 0]);
    }
    (start, stream.len())
}

fn png_chunk(out: &mut Vec<u8>, ty: &[u8; 4], data: &[u8]) {
    out.extend_from_slice(&(data.len() as u32).to_be_bytes());
    out.extend_from_slice(ty);
    out.extend_from_slice(data);
    let mut h = crc32fast::Hasher::new();
    h.update(ty);
    h.update(data);
    out.extend_from_slice(&h.finalize().to_be_bytes());
}

pub struct PngOpts {
    /// a non-IDAT chunk (tEXt) inserted after this many IDAT chunks (breaks the run: edge case)
    pub foreign_after: Option<usize>,
    pub signature: bool,
    pub ihdr: bool,
    /// chunk payload sizes; the last chunk takes the remainder
    pub cuts: Vec<usize>,
    /// bytes inserted between the last DEFLATE block and the Adler-32
    pub gap: Vec<u8>,
    /// 0 = IEND, 1 = nothing, 2 = few trailing bytes
    pub ending: usize,
    pub trailing: Vec<u8>,
    pub hdr: [u8; 2],
}

pub fn gen_png_opts(dna: &mut Dna, payload_len: usize, edge_cases: bool) -> PngOpts {
    let nchunks = match dna.weighted(&[40, 30, 20, 10]) {
        0 => 1,
        1 => 2,
        2 => dna.range(3, 6),
        _ => dna.range(6, 40),
    };
    let mut cuts = vec![];
    // "fixed small buffer" encoders: the whole payload in equal tiny chunks (the chunk count can
    // exceed 65535 for large payloads, and the framing can outweigh the data)
    let uniform = if dna.chance(7) { Some([1usize, 2, 3, 4, 7, 16][dna.below(6)]) } else { None };
    if let Some(u) = uniform {
        // more than 65535 chunks only rarely: a run the scanner rejects is re-parsed from every
        // chunk, which is quadratic in the chunk count
        let huge = dna.chance(15);
        let max_chunks = if huge { 70_000 } else { 400 };
        let u = u.max(payload_len / max_chunks + 1);
        let n = payload_len / u;
        cuts = vec![u; n];
    }
    for _ in 1..(if uniform.is_some() { 1 } else { nchunks }) {
        let c = match dna.below(if edge_cases { 6 } else { 4 }) {
            0 => dna.range(1, 16),
            1 => dna.range(16, 600),
            2 => dna.range(600, 8192),
            3 => dna.range(1, payload_len.max(1)),
            4 => 0, // zero-length chunk
            _ => dna.range(0, 3),
        };
        cuts.push(c);
    }
    let gap = if edge_cases && dna.chance(8) {
        let n = dna.range(1, 9);
        dna.bytes(n)
    } else {
        vec![]
    };
    let ending = dna.weighted(&[60, 15, 25]);
    let trailing = if ending == 2 {
        let n = dna.range(1, 11);
        dna.bytes(n)
    } else {
        vec![]
    };
    PngOpts {
        foreign_after: if edge_cases && dna.chance(5) { Some(dna.below(nchunks.max(1))) } else { None },
        signature: dna.chance(85),
        ihdr: dna.chance(85),
        cuts,
        gap,
        ending,
        trailing,
        hdr: ZLIB_HEADERS[dna.below(4)],
    }
}

/// returns (offset of first IDAT length field, total length of the IDAT chunks)
pub fn wrap_png(out: &mut Vec<u8>, o: &PngOpts, stream: &[u8], plain: &[u8]) -> (usize, usize) {
    if o.signature {
        out.extend_from_slice(&[0x89, b'P', b'N', b'G', 0x0d, 0x0a, 0x1a, 0x0a]);
    }
    if o.ihdr {
        png_chunk(out, b"IHDR", &[0, 0, 0, 16, 0, 0, 0, 16, 8, 2, 0, 0, 0]);
    }
    let mut payload = o.hdr.to_vec();
    payload.extend_from_slice(stream);
    payload.extend_from_slice(&o.gap);
    payload.extend_from_slice(&adler32(plain).to_be_bytes());
    let start = out.len();
    let mut pos = 0;
    for (ci, &c) in o.cuts.iter().enumerate() {
        let c = c.min(payload.len() - pos);
        png_chunk(out, b"IDAT", &payload[pos..pos + c]);
        pos += c;
        if o.foreign_after == Some(ci) {
            png_chunk(out, b"tEXt", b"Comment\0between IDAT chunks");
        }
    }
    png_chunk(out, b"IDAT", &payload[pos..]);
    let total = out.len() - start;
    match o.ending {
        0 => png_chunk(out, b"IEND", &[]),
        1 => {}
        _ => out.extend_from_slice(&o.trailing),
    }
    (start, total)
}

pub fn lookalike_pub(dna: &mut Dna, out: &mut Vec<u8>) -> &'static str {
    lookalike(dna, out)
}

fn lookalike(dna: &mut Dna, out: &mut Vec<u8>) -> &'static str {
    let mut m = Mix::new(dna.u64());
    match dna.below(10) {
        0 => {
            out.extend_from_slice(b"PK");
            "PK"
        }
        1 => {
            // local header signature with wild length fields
            out.extend_from_slice(&0x04034b50u32.to_le_bytes());
            let n = m.range(0, 40);
            for i in 0..n {
                // method field (offset 8..10 of header => index 4..6 here) often 8
                out.push(if i == 4 && m.chance(70) { 8 } else if i == 5 { 0 } else { m.u8() });
            }
            "PK0304-wild"
        }
        2 => {
            // complete 30 byte local header, method 8, name/extra lengths beyond EOF
            out.extend_from_slice(&0x04034b50u32.to_le_bytes());
            out.extend_from_slice(&[20, 0, 0, 0, 8, 0]);
            out.extend_from_slice(&[0; 16]);
            out.extend_from_slice(&(m.range(0, 50) as u16).to_le_bytes());
            out.extend_from_slice(&(m.range(0, 65535) as u16).to_le_bytes());
            let n = m.range(0, 60);
            out.extend((0..n).map(|_| m.u8()));
            "PK0304-extra-past-eof"
        }
        3 => {
            out.extend_from_slice(&[0x1f, 0x8b]);
            "1F8B"
        }
        4 => {
            out.extend_from_slice(&[0x1f, 0x8b, 8, m.u8() & 0x1f]);
            let n = m.range(0, 30);
            out.extend((0..n).map(|_| m.u8()));
            "1F8B08-flags"
        }
        5 => {
            out.extend_from_slice(&ZLIB_HEADERS[m.below(4)]);
            let n = m.range(0, 30);
            out.extend((0..n).map(|_| m.u8()));
            "78xx-noise"
        }
        6 => {
            out.extend_from_slice(b"IDAT");
            let n = m.range(0, 20);
            out.extend((0..n).map(|_| m.u8()));
            "IDAT-bare"
        }
        7 => {
            // IDAT with a length field and payload but wrong crc / short data
            let len = m.range(0, 40) as u32;
            out.extend_from_slice(&len.to_be_bytes());
            out.extend_from_slice(b"IDAT");
            let n = m.range(0, 60);
            out.extend((0..n).map(|_| m.u8()));
            "IDAT-badcrc"
        }
        8 => {
            // well-formed tiny IDAT chunk(s): payload 0..8 bytes with correct CRC
            let k = m.range(1, 3);
            for _ in 0..k {
                let n = m.range(0, 8);
                let d: Vec<u8> = (0..n).map(|_| m.u8()).collect();
                png_chunk(out, b"IDAT", &d);
            }
            let t = m.range(0, 12);
            out.extend((0..t).map(|_| m.u8()));
            "IDAT-tiny-valid"
        }
        _ => {
            // fixed-huffman start behind a zlib header: parser gets going
            out.extend_from_slice(&ZLIB_HEADERS[m.below(4)]);
            out.push(0x03 | (m.u8() << 3));
            let n = m.range(0, 50);
            out.extend((0..n).map(|_| m.u8()));
            "78xx-fixed-block"
        }
    }
}

pub fn gen_file(dna: &mut Dna) -> FileCase {
    gen_file_opts(dna, false)
}

/// `small`: few segments, embedded plaintexts just above the 1024 byte threshold (cheap containers)
pub fn gen_file_opts(dna: &mut Dna, small: bool) -> FileCase {
    if dna.chance(if small { 1 } else { 2 }) && dna.chance(50) {
        // a stream that expands enormously (megabytes of one byte: better than 1000:1), wrapped
        // as zlib or gzip, between a little junk
        let n = dna.range(2 << 20, 5 << 20);
        let b = dna.u8();
        let plain = vec![b; n];
        let stream = crate::gen_comp::zlib_deflate_raw(&plain, &crate::gen_comp::ZCfg::simple(dna.range(1, 9) as i32)).unwrap();
        let mut out = junk(dna, true, 40);
        let mut m = Mix::new(dna.u64());
        let w = out.len();
        let (s, l) = if dna.bool() {
            wrap_zlib(&mut out, [0x78, 0x9c], &stream, &plain)
        } else {
            let o = gen_gzip_opts(dna);
            wrap_gzip(&mut out, &o, &stream, &plain, &mut m)
        };
        out.extend(junk(dna, true, 40));
        return FileCase {
            desc: format!("huge run: {} bytes of {:02x} in {} compressed bytes", n, b, stream.len()),
            bytes: out,
            labels: vec!["file:huge-run-stream".into(), "file:intact".into(), "wrapper:zlib-or-gzip".into()],
            embedded: vec![Embedded { wrapper: "zlib", variant: "huge-run".into(), wrapper_start: w, stream_start: s, stream_len: l, plain, stream }],
            mutated: false,
        };
    }
    if !small && dna.chance(3) {
        // large file without any embedded stream, mostly incompressible (zstd stores it in raw
        // blocks): sizes around and beyond 512 KiB
        let n = dna.range(300 * 1024, 1536 * 1024);
        let mut m = Mix::new(dna.u64());
        let compressible_head = dna.below(3) == 0;
        let mut bytes: Vec<u8> = Vec::with_capacity(n);
        if compressible_head {
            bytes.extend(std::iter::repeat(b'x').take(m.range(1, 4000)));
        }
        while bytes.len() < n {
            let b = safe_junk_byte(&mut m);
            bytes.push(b);
        }
        return FileCase {
            desc: format!("large incompressible file {} bytes", bytes.len()),
            bytes,
            labels: vec!["file:large-incompressible".into(), "file:intact".into(), "file:no-embedded-stream".into()],
            embedded: vec![],
            mutated: false,
        };
    }
    let mut out: Vec<u8> = Vec::new();
    let mut labels: Vec<String> = vec![];
    let mut embedded = vec![];
    let mut desc = String::new();
    let mut no_mutation = false;
    let nseg = match dna.weighted(if small { &[5, 70, 25, 0] } else { &[10, 40, 30, 20] }) {
        0 => 0,
        1 => dna.range(1, 2),
        2 => dna.range(3, 5),
        _ => dna.range(6, 12),
    };
    for _ in 0..nseg {
        match dna.weighted(&[2000, 2500, 5040, 400, 6]) {
            4 => {
                // PNG whose IDAT run has more than 65535 chunks (one payload byte per chunk)
                let n = dna.range(66_000, 72_000);
                let mut m = Mix::new(dna.u64());
                let plain: Vec<u8> = (0..n).map(|_| m.u8()).collect();
                let stream = crate::gen_comp::zlib_deflate_raw(&plain, &crate::gen_comp::ZCfg::simple(0)).unwrap();
                let o = PngOpts {
                    foreign_after: None,
                    signature: true,
                    ihdr: true,
                    cuts: vec![1; stream.len() + 5],
                    gap: vec![],
                    ending: 0,
                    trailing: vec![],
                    hdr: [0x78, 0x01],
                };
                let w = out.len();
                let (st, l) = wrap_png(&mut out, &o, &stream, &plain);
                no_mutation = true; // a damaged run of this size is re-parsed from every chunk (quadratic)
                labels.push("png:more-than-65535-chunks".into());
                labels.push("wrapper:png".into());
                desc.push_str(&format!("[png with {} one-byte IDAT chunks]", stream.len() + 6));
                embedded.push(Embedded { wrapper: "png", variant: "many-chunks".into(), wrapper_start: w, stream_start: st, stream_len: l, plain, stream });
            }
            3 => {
                let (a, b) = seam_idat(&mut out, dna);
                labels.push("seam:idat-length-overlaps-previous-stream".into());
                desc.push_str("[seam: zlib stored + overlapping IDAT]");
                embedded.push(a);
                embedded.push(b);
            }
            0 => {
                let j = junk(dna, false, if small { 60 } else { 2000 });
                out.extend_from_slice(&j);
                labels.push("seg:junk".into());
            }
            1 => {
                let l = lookalike(dna, &mut out);
                labels.push(format!("lookalike:{}", l));
                desc.push_str(&format!("[{}]", l));
            }
            _ => {
                let size = if small {
                    match dna.weighted(&[70, 20, 10]) {
                        0 => dna.range(1025, 1500),
                        1 => dna.range(1500, 4000),
                        _ => dna.range(900, 1024),
                    }
                } else {
                    pick_embedded_plain_size(dna)
                };
                let (stream, plain, sdesc) = gen_embedded_stream(dna, true, size);
                let mut m = Mix::new(dna.u64());
                let wstart = out.len();
                let (wrapper, variant, (s, l)) = match dna.weighted(&[25, 25, 25, 25]) {
                    0 => {
                        let h = ZLIB_HEADERS[dna.below(4)];
                        // sometimes the Adler-32 is missing or cut short, so that the next
                        // segment starts 0..3 bytes after the deflate data
                        let trailer = if dna.chance(20) { dna.below(4) } else { 4 };
                        if trailer < 4 {
                            labels.push("zlib:short-trailer".into());
                        }
                        ("zlib", format!("{:02x}{:02x} trailer={}", h[0], h[1], trailer), wrap_zlib_trailer(&mut out, h, &stream, &plain, trailer))
                    }
                    1 => {
                        let o = gen_gzip_opts(dna);
                        ("gzip", format!("flags={:02x} xlen={}", o.flags, o.extra.len()), wrap_gzip(&mut out, &o, &stream, &plain, &mut m))
                    }
                    2 => {
                        let mut o = gen_zip_opts(dna);
                        if dna.chance(10) {
                            o.method = [0u16, 9, 12][dna.below(3)];
                        }
                        ("zip", format!("name={} extra={} dd={} method={}", o.name_len, o.extra_len, o.data_descriptor, o.method), wrap_zip(&mut out, &o, &stream, &plain, &mut m))
                    }
                    _ => {
                        let o = gen_png_opts(dna, stream.len() + 6, true);
                        let v = format!("chunks={} gap={} ending={} trailing={}", o.cuts.len() + 1, o.gap.len(), o.ending, o.trailing.len());
                        if o.cuts.iter().any(|&c| c == 0) {
                            labels.push("png:zero-length-chunk".into());
                        }
                        if !o.gap.is_empty() {
                            labels.push("png:gap-before-adler".into());
                        }
                        if o.ending == 2 {
                            labels.push("png:trailing-bytes".into());
                        }
                        ("png", v, wrap_png(&mut out, &o, &stream, &plain))
                    }
                };
                labels.push(format!("wrapper:{}", wrapper));
                if plain.len() > 1024 {
                    labels.push("embedded:plain>1024".into());
                } else {
                    labels.push("embedded:plain<=1024".into());
                }
                desc.push_str(&format!("[{} {} ({}; plain {})]", wrapper, variant, sdesc, plain.len()));
                embedded.push(Embedded {
                    wrapper,
                    variant,
                    wrapper_start: wstart,
                    stream_start: s,
                    stream_len: l,
                    plain,
                    stream,
                });
            }
        }
    }
    // file-level mutation
    let mut mutated = false;
    if dna.chance(30) && !out.is_empty() && !no_mutation {
        mutated = true;
        let n = dna.range(1, 3);
        for _ in 0..n {
            let len = out.len();
            if len == 0 {
                break;
            }
            match dna.below(5) {
                0 => {
                    let p = dna.below(len + 1);
                    out.truncate(p);
                    desc.push_str(&format!(" trunc@{}", p));
                }
                1 => {
                    let p = dna.below(len);
                    let b = dna.below(8);
                    out[p] ^= 1 << b;
                    desc.push_str(&format!(" flip@{}.{}", p, b));
                }
                2 => {
                    // truncate close to the end (inside trailers / last chunk)
                    let p = len - 1 - dna.below(len.min(24));
                    out.truncate(p);
                    desc.push_str(&format!(" trunc-end@{}", p));
                }
                3 => {
                    // splice: move a slice of the file to another place
                    let a = dna.below(len);
                    let k = dna.range(1, 64).min(len - a);
                    let sl = out[a..a + k].to_vec();
                    let q = dna.below(len + 1);
                    out.splice(q..q, sl);
                    desc.push_str(&format!(" splice {}+{}->{}", a, k, q));
                }
                _ => {
                    let p = dna.below(len);
                    let k = dna.range(1, 16).min(len - p);
                    out.drain(p..p + k);
                    desc.push_str(&format!(" del@{}+{}", p, k));
                }
            }
        }
        labels.push("file:mutated".into());
    } else {
        labels.push("file:intact".into());
    }
    if embedded.is_empty() {
        labels.push("file:no-embedded-stream".into());
    }
    FileCase {
        bytes: out,
        desc,
        labels,
        embedded,
        mutated,
    }
}
