//! Driver: spawns one worker process per shard, watches heart-beats, confirms every
//! failure by replaying its saved file in a fresh process, merges the workers' statistics
//! into /verif/evidence/<ID>.json and prints the verdict lines.

use crate::engine::*;
use crate::props::PropDef;
use serde_json::{json, Value};
use std::collections::{BTreeMap, BTreeSet};
use std::path::{Path, PathBuf};
use std::process::{Child, Command, Stdio};
use std::time::{Duration, Instant, SystemTime};

fn work_dir(id: &str) -> PathBuf {
    out_root().join("work").join(id)
}

fn env_u64(name: &str, default: u64) -> u64 {
    std::env::var(name)
        .ok()
        .and_then(|s| s.parse().ok())
        .unwrap_or(default)
}

fn scale() -> f64 {
    std::env::var("VERIF_SCALE")
        .ok()
        .and_then(|s| s.parse().ok())
        .unwrap_or(1.0)
}

/// a runaway allocation must kill this process (abort on allocation failure), not the machine
fn limit_address_space() {
    let gb = env_u64("VERIF_MEM_GB", 12);
    unsafe {
        let lim = libc::rlimit { rlim_cur: gb << 30, rlim_max: gb << 30 };
        libc::setrlimit(libc::RLIMIT_AS, &lim);
    }
}

pub fn worker_main(def: &'static PropDef, tier: Tier, seed: u64, shard: u32, nshards: u32) {
    install_panic_hook();
    limit_address_space();
    let wd = work_dir(def.id);
    let cfg = RunCfg {
        tier,
        seed,
        shard,
        nshards,
        scale: scale(),
    };
    let mut ctx = Ctx::new(def.id, cfg);
    ctx.inflight_path = Some(wd.join(format!("inflight_{}.json", shard)));
    ctx.set_inflight(&json!({"kind": "startup"}));

    let r = guard(|| {
        // regression tier: shard 0 replays every saved repro of a fixed defect first
        if shard == 0 {
            let dir = verif_root().join("regress").join(def.id);
            if let Ok(rd) = std::fs::read_dir(&dir) {
                let mut files: Vec<PathBuf> = rd.filter_map(|e| e.ok().map(|e| e.path())).collect();
                files.sort();
                for f in files {
                    let p = f.to_string_lossy().to_string();
                    if let Ok(doc) = load_replay(&p) {
                        ctx.set_inflight(&doc);
                        ctx.regress_replayed += 1;
                        let was = ctx.counting;
                        ctx.counting = false;
                        let r = (def.replay)(&doc, &mut ctx);
                        ctx.counting = was;
                        if let Err(fl) = r {
                            if !ctx.is_known(&fl) {
                                ctx.failures.push(FailureReport {
                                    sig: fl.sig,
                                    detail: format!("regression repro fails again: {}", fl.detail),
                                    replay: p,
                                });
                            }
                        }
                    }
                }
            }
        }
        (def.worker)(&mut ctx);
    });
    let completed = r.is_ok();
    if let Err(c) = &r {
        ctx.extra.insert(
            "harness_panic".into(),
            json!(format!("{} at {}", c.msg, c.location)),
        );
    }
    ctx.set_inflight(&json!({"kind": "done"}));
    let res = ctx.into_result(completed);
    let out = wd.join(format!("result_{}.json", shard));
    std::fs::write(&out, serde_json::to_vec(&res).unwrap()).unwrap();
    std::process::exit(0);
}

pub fn slow_main(def: &'static PropDef, sub: &str, start: u64, count: u64) {
    install_panic_hook();
    limit_address_space();
    let wd = work_dir(def.id);
    let cfg = RunCfg {
        tier: Tier::Quick,
        seed: 0,
        shard: 999,
        nshards: 1,
        scale: 1.0,
    };
    let mut ctx = Ctx::new(def.id, cfg);
    ctx.inflight_path = Some(wd.join("inflight_slow.json"));
    ctx.slow = true;
    if let Some(exh) = def.exh {
        exh(&mut ctx, sub, start, count);
    }
    let res = ctx.into_result(true);
    std::fs::write(wd.join("result_slow.json"), serde_json::to_vec(&res).unwrap()).unwrap();
    std::process::exit(0);
}

pub fn replay_main(def: &'static PropDef, path: &str) -> i32 {
    install_panic_hook();
    limit_address_space();
    let doc = match load_replay(path) {
        Ok(d) => d,
        Err(e) => {
            println!("PFV-VERDICT ERROR {}", e);
            return 2;
        }
    };
    let cfg = RunCfg {
        tier: Tier::Quick,
        seed: 0,
        shard: 0,
        nshards: 1,
        scale: 1.0,
    };
    let mut ctx = Ctx::new(def.id, cfg);
    ctx.strict = true;
    // first pass: the case on its own; if it passes and predecessors were recorded, replay
    // them first (hidden state between calls) and then the case again
    let mut r = (def.replay)(&doc, &mut ctx);
    if r.is_ok() {
        if let Some(hist) = doc.get("history").and_then(|h| h.as_array()) {
            for h in hist {
                let _ = (def.replay)(h, &mut ctx);
            }
            r = (def.replay)(&doc, &mut ctx);
            if r.is_err() {
                println!("note: the failure needs its recorded predecessors (call history) to show");
            }
        }
    }
    match r {
        Ok(()) => {
            println!("PFV-VERDICT PASS");
            0
        }
        Err(f) => {
            if ctx.is_known(&f) {
                println!("PFV-VERDICT KNOWN sig={}", f.sig);
                println!("KNOWN-FINDING: property={} {}", def.id, f.sig);
                0
            } else {
                println!("PFV-VERDICT FAIL sig={}", f.sig);
                println!("detail: {}", f.detail);
                println!("VIOLATION property={} replay={}", def.id, path);
                1
            }
        }
    }
}

enum Confirm {
    Fail(String),
    Known(String),
    Pass,
    Undecided(String),
}

fn confirm_replay(def: &PropDef, path: &str, timeout: Duration) -> Confirm {
    let exe = std::env::current_exe().unwrap();
    let out_path = work_dir(def.id).join("confirm.out");
    let outf = std::fs::File::create(&out_path).unwrap();
    let mut child = match Command::new(exe)
        .args(["replay", def.id, path])
        .stdin(Stdio::null())
        .stdout(outf)
        .stderr(Stdio::null())
        .spawn()
    {
        Ok(c) => c,
        Err(e) => return Confirm::Undecided(format!("cannot spawn replay: {}", e)),
    };
    let start = Instant::now();
    loop {
        match child.try_wait() {
            Ok(Some(status)) => {
                let text = std::fs::read_to_string(&out_path).unwrap_or_default();
                for line in text.lines() {
                    if let Some(rest) = line.strip_prefix("PFV-VERDICT ") {
                        if let Some(s) = rest.strip_prefix("FAIL sig=") {
                            return Confirm::Fail(s.trim().to_string());
                        }
                        if let Some(s) = rest.strip_prefix("KNOWN sig=") {
                            return Confirm::Known(s.trim().to_string());
                        }
                        if rest.starts_with("PASS") {
                            return Confirm::Pass;
                        }
                        return Confirm::Undecided(rest.to_string());
                    }
                }
                use std::os::unix::process::ExitStatusExt;
                if let Some(sig) = status.signal() {
                    return Confirm::Fail(format!("{}/abort/signal-{}", def.id, sig));
                }
                return Confirm::Fail(format!(
                    "{}/abort/exit-{}",
                    def.id,
                    status.code().unwrap_or(-1)
                ));
            }
            Ok(None) => {
                if start.elapsed() > timeout {
                    let _ = child.kill();
                    let _ = child.wait();
                    return Confirm::Fail(format!("{}/hang/no-result-in-{}s", def.id, timeout.as_secs()));
                }
                std::thread::sleep(Duration::from_millis(50));
            }
            Err(e) => return Confirm::Undecided(format!("wait failed: {}", e)),
        }
    }
}

struct Slot {
    shard: u32,
    child: Option<Child>,
    done: bool,
    last_beat: Instant,
    last_mtime: Option<SystemTime>,
    died: Option<String>,
}

fn inflight_mtime(p: &Path) -> Option<SystemTime> {
    std::fs::metadata(p).ok().and_then(|m| m.modified().ok())
}

pub fn run(def: &'static PropDef, tier: Tier, seed: u64) -> i32 {
    let t0 = Instant::now();
    let wd = work_dir(def.id);
    let _ = std::fs::remove_dir_all(&wd);
    std::fs::create_dir_all(&wd).unwrap();
    let _ = std::fs::create_dir_all(out_root().join("evidence"));
    let _ = std::fs::create_dir_all(out_root().join("replays"));
    let nshards = env_u64(
        "VERIF_JOBS",
        std::thread::available_parallelism()
            .map(|n| n.get() as u64)
            .unwrap_or(16)
            .min(16),
    ) as u32;
    let hang_limit = Duration::from_secs(env_u64("VERIF_HANG_S", 600));
    let confirm_hang_limit = Duration::from_secs(env_u64("VERIF_HANG_CONFIRM_S", 1800));
    let exe = std::env::current_exe().unwrap();

    let mut slots: Vec<Slot> = (0..nshards)
        .map(|k| {
            let errf = std::fs::File::create(wd.join(format!("worker_{}.err", k))).unwrap();
            let child = Command::new(&exe)
                .args([
                    "worker",
                    def.id,
                    tier.name(),
                    &seed.to_string(),
                    &k.to_string(),
                    &nshards.to_string(),
                ])
                .stdin(Stdio::null())
                .stdout(Stdio::null())
                .stderr(errf)
                .spawn()
                .expect("spawn worker");
            Slot {
                shard: k,
                child: Some(child),
                done: false,
                last_beat: Instant::now(),
                last_mtime: None,
                died: None,
            }
        })
        .collect();

    // monitor
    let mut undecided: Vec<String> = vec![];
    // (sig, replay path) candidates from abnormal terminations / hangs
    let mut abnormal: Vec<(String, String)> = vec![];
    loop {
        let mut running = 0;
        for s in slots.iter_mut() {
            if s.done {
                continue;
            }
            let inflight = wd.join(format!("inflight_{}.json", s.shard));
            let child = s.child.as_mut().unwrap();
            match child.try_wait() {
                Ok(Some(status)) => {
                    s.done = true;
                    let resf = wd.join(format!("result_{}.json", s.shard));
                    if !status.success() || !resf.exists() {
                        use std::os::unix::process::ExitStatusExt;
                        let how = if let Some(sig) = status.signal() {
                            format!("signal-{}", sig)
                        } else {
                            format!("exit-{}", status.code().unwrap_or(-1))
                        };
                        s.died = Some(how);
                    }
                }
                Ok(None) => {
                    running += 1;
                    let m = inflight_mtime(&inflight);
                    if m != s.last_mtime {
                        s.last_mtime = m;
                        s.last_beat = Instant::now();
                    } else if s.last_beat.elapsed() > hang_limit {
                        let _ = child.kill();
                        let _ = child.wait();
                        s.done = true;
                        s.died = Some("watchdog".into());
                    }
                }
                Err(_) => {
                    s.done = true;
                    s.died = Some("wait-error".into());
                }
            }
        }
        if running == 0 {
            break;
        }
        std::thread::sleep(Duration::from_millis(100));
    }

    // abnormal terminations: pin the culprit from the in-flight file
    for s in slots.iter() {
        if let Some(how) = &s.died {
            let inflight = wd.join(format!("inflight_{}.json", s.shard));
            let doc: Option<Value> = std::fs::read(&inflight)
                .ok()
                .and_then(|b| serde_json::from_slice(&b).ok());
            match doc {
                Some(mut d) => {
                    let kind = d.get("kind").and_then(|k| k.as_str()).unwrap_or("").to_string();
                    if kind == "exh" {
                        // re-run the block with per-case in-flight records
                        let sub = d["sub"].as_str().unwrap_or("").to_string();
                        let start = d["index"].as_u64().unwrap_or(0);
                        let count = d["block"].as_u64().unwrap_or(1);
                        let st = Command::new(&exe)
                            .args(["slow", def.id, &sub, &start.to_string(), &count.to_string()])
                            .stdin(Stdio::null())
                            .stdout(Stdio::null())
                            .stderr(Stdio::null())
                            .status();
                        let slow_doc: Option<Value> = std::fs::read(wd.join("inflight_slow.json"))
                            .ok()
                            .and_then(|b| serde_json::from_slice(&b).ok());
                        match (st, slow_doc) {
                            (Ok(st), Some(sd)) if !st.success() => d = sd,
                            _ => {
                                undecided.push(format!(
                                    "worker {} died ({}) in exhaustive block {}@{} but the slow re-run did not",
                                    s.shard, how, sub, start
                                ));
                                continue;
                            }
                        }
                    } else if kind == "startup" || kind == "done" || kind.is_empty() {
                        undecided.push(format!(
                            "worker {} died ({}) outside any case; see {}",
                            s.shard,
                            how,
                            wd.join(format!("worker_{}.err", s.shard)).display()
                        ));
                        continue;
                    }
                    if let Some(o) = d.as_object_mut() {
                        o.insert("property".into(), json!(def.id));
                        o.insert("worker_died".into(), json!(how));
                    }
                    let path = out_root()
                        .join("replays")
                        .join(format!("{}-abnormal-s{}.json", def.id, s.shard));
                    std::fs::write(&path, serde_json::to_string_pretty(&d).unwrap()).unwrap();
                    let kind = if how == "watchdog" { "hang" } else { "abort" };
                    abnormal.push((
                        format!("{}/{}/{}", def.id, kind, how),
                        path.to_string_lossy().into(),
                    ));
                }
                None => undecided.push(format!(
                    "worker {} died ({}) and its in-flight record is unreadable",
                    s.shard, how
                )),
            }
        }
    }

    // merge results
    let mut evaluations = 0u64;
    let mut nontrivial: BTreeSet<u64> = BTreeSet::new();
    let mut classes: BTreeMap<String, u64> = BTreeMap::new();
    let mut discards: BTreeMap<String, u64> = BTreeMap::new();
    let mut known_hits: BTreeMap<String, u64> = BTreeMap::new();
    let mut samples: Vec<Value> = vec![];
    let mut exhaustive: Vec<Value> = vec![];
    let mut extra: BTreeMap<String, Vec<Value>> = BTreeMap::new();
    let mut failures: Vec<FailureReport> = vec![];
    let mut regress = 0u64;
    let mut incomplete = 0;
    for s in slots.iter() {
        let resf = wd.join(format!("result_{}.json", s.shard));
        let r: Option<WorkerResult> = std::fs::read(&resf)
            .ok()
            .and_then(|b| serde_json::from_slice(&b).ok());
        match r {
            Some(r) => {
                evaluations += r.evaluations;
                nontrivial.extend(r.nontrivial.iter().copied());
                for (k, v) in r.classes {
                    *classes.entry(k).or_insert(0) += v;
                }
                for (k, v) in r.discards {
                    *discards.entry(k).or_insert(0) += v;
                }
                for (k, v) in r.known_hits {
                    *known_hits.entry(k).or_insert(0) += v;
                }
                if samples.len() < 8 {
                    samples.extend(r.samples.into_iter().take(2));
                }
                exhaustive.extend(r.exhaustive);
                for (k, v) in r.extra {
                    extra.entry(k).or_default().push(v);
                }
                failures.extend(r.failures);
                regress += r.regress_replayed;
                if !r.completed {
                    incomplete += 1;
                    undecided.push(format!("worker {} did not complete (harness panic)", s.shard));
                }
            }
            None => {
                incomplete += 1;
            }
        }
    }

    // aggregate verdicts (properties whose oracle is a statistic over the whole sample)
    if let Some(agg) = def.aggregate {
        let cfg = RunCfg { tier, seed, shard: 0, nshards, scale: scale() };
        if incomplete == 0 {
            let (agg_failures, summary) = agg(&extra, &cfg);
            if !summary.is_null() {
                extra.insert("aggregate".into(), vec![summary]);
            }
            for (f, mut doc) in agg_failures {
                if let Some(o) = doc.as_object_mut() {
                    o.insert("property".into(), json!(def.id));
                    o.insert("sig".into(), json!(f.sig));
                    o.insert("detail".into(), json!(f.detail));
                }
                let path = out_root().join("replays").join(format!(
                    "{}-{:016x}-agg.json",
                    def.id,
                    crate::dna::fnv64(f.sig.as_bytes())
                ));
                std::fs::write(&path, serde_json::to_string_pretty(&doc).unwrap()).unwrap();
                failures.push(FailureReport { sig: f.sig, detail: f.detail, replay: path.to_string_lossy().into() });
            }
        }
    }

    // confirm failures (dedupe by signature)
    let mut violations: Vec<(String, String, String)> = vec![]; // sig, replay, detail
    let mut seen: BTreeSet<String> = BTreeSet::new();
    for f in failures.iter() {
        if seen.contains(&f.sig) {
            continue;
        }
        match confirm_replay(def, &f.replay, confirm_hang_limit) {
            Confirm::Fail(sig) if sig.contains("/harness/") => {
                undecided.push(format!("replay of {} failed inside the harness: {}", f.replay, sig));
            }
            Confirm::Fail(sig) => {
                seen.insert(f.sig.clone());
                if sig == f.sig || sig.contains("/abort/") || sig.contains("/hang/") {
                    violations.push((f.sig.clone(), f.replay.clone(), f.detail.clone()));
                } else {
                    // reproduces as a failure, with another signature: still a confirmed failure
                    violations.push((sig, f.replay.clone(), f.detail.clone()));
                }
            }
            Confirm::Known(sig) => {
                *known_hits.entry(sig).or_insert(0) += 1;
                seen.insert(f.sig.clone());
            }
            Confirm::Pass => undecided.push(format!(
                "failure {} did not reproduce from {} in a fresh process",
                f.sig, f.replay
            )),
            Confirm::Undecided(why) => undecided.push(format!("replay of {}: {}", f.replay, why)),
        }
    }
    let known = load_known_findings();
    for (sig, path) in abnormal.iter() {
        let limit = if sig.contains("/hang/") {
            confirm_hang_limit
        } else {
            Duration::from_secs(900)
        };
        match confirm_replay(def, path, limit) {
            Confirm::Fail(s2) => {
                let is_total = def.totality;
                if known.iter().any(|k| k.property == def.id && k.signature == s2) {
                    *known_hits.entry(s2).or_insert(0) += 1;
                } else if s2.contains("/abort/") || s2.contains("/hang/") {
                    if is_total {
                        violations.push((s2, path.clone(), format!("worker terminated abnormally: {}", sig)));
                    } else {
                        undecided.push(format!(
                            "{} while evaluating {} (property makes no totality claim)",
                            s2, path
                        ));
                    }
                } else {
                    violations.push((s2, path.clone(), "found while confirming an abnormal termination".into()));
                }
            }
            Confirm::Known(s2) => {
                *known_hits.entry(s2).or_insert(0) += 1;
            }
            Confirm::Pass => {
                if sig.contains("/hang/") {
                    // slow, not hung: the case finished on its own when re-run alone
                    println!("NOTE: worker stopped by the watchdog on a slow case that completes when run alone ({}); its remaining cases were not evaluated", path);
                } else {
                    undecided.push(format!("abnormal termination {} did not reproduce from {}", sig, path));
                }
            }
            Confirm::Undecided(why) => undecided.push(format!("replay of {}: {}", path, why)),
        }
    }

    // evidence
    let wall = t0.elapsed().as_secs_f64();
    let mut coverage = serde_json::Map::new();
    coverage.insert("evaluations".into(), json!(evaluations));
    coverage.insert("distinct_nontrivial".into(), json!(nontrivial.len()));
    coverage.insert("rule".into(), json!(def.rule));
    coverage.insert("samples".into(), json!(samples));
    coverage.insert("classes".into(), json!(classes));
    coverage.insert("discarded".into(), json!(discards));
    coverage.insert("known_findings_hit".into(), json!(known_hits));
    coverage.insert("regress_replayed".into(), json!(regress));
    coverage.insert("exhaustive_subspaces".into(), json!(exhaustive));
    coverage.insert("exhaustive".into(), json!(false));
    coverage.insert("workers".into(), json!(nshards));
    coverage.insert("workers_incomplete".into(), json!(incomplete));
    coverage.insert("undecided".into(), json!(undecided));
    coverage.insert("profile".into(), json!("release (debug-assertions off)"));
    for (k, v) in extra {
        coverage.insert(k, json!(v));
    }
    let evidence = json!({
        "property_id": def.id,
        "tier": tier.name(),
        "seed": seed as i64,
        "level": def.level,
        "coverage": Value::Object(coverage),
        "assumptions": def.assumptions,
        "wall_s": wall,
        "violations": violations.len(),
    });
    let evp = out_root().join("evidence").join(format!("{}.json", def.id));
    std::fs::write(&evp, serde_json::to_string_pretty(&evidence).unwrap()).unwrap();

    // verdict
    println!(
        "{} {} seed={} evaluations={} distinct_nontrivial={} wall={:.1}s",
        def.id,
        tier.name(),
        seed,
        evaluations,
        nontrivial.len(),
        wall
    );
    for (sig, n) in known_hits.iter() {
        let text = known
            .iter()
            .find(|k| k.signature == *sig)
            .map(|k| k.text.clone())
            .unwrap_or_default();
        println!("KNOWN-FINDING: property={} {} ({} hits) {}", def.id, sig, n, text);
    }
    for (sig, replay, detail) in violations.iter() {
        println!("failure signature: {}", sig);
        println!("detail: {}", detail.lines().next().unwrap_or(""));
        println!("VIOLATION property={} replay={}", def.id, replay);
    }
    if !violations.is_empty() {
        return 1;
    }
    if !undecided.is_empty() {
        for u in undecided.iter() {
            println!("UNDECIDED: {}", u);
        }
        return 2;
    }
    println!("OK property={} held on everything explored", def.id);
    0
}
