fn main(){}
