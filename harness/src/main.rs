//! pfv: property-based testing / fuzzing harness for preflate-rs (see /verif/DESIGN.md)
//!
//!   pfv run <ID> quick|thorough [--seed N]      driver: spawns workers, writes evidence
//!   pfv replay <ID> <file>                       evaluates exactly one saved case
//!   pfv worker <ID> <tier> <seed> <shard> <n>    internal
//!   pfv slow <ID> <sub> <start> <count>          internal: exhaustive block, per-case in-flight

use pfv::engine::*;
use pfv::{driver, engine, model_container, props};

fn usage() -> ! {
    eprintln!("usage: pfv run <ID> quick|thorough [--seed N] | pfv replay <ID> <file> | pfv list");
    std::process::exit(2);
}

fn parse_tier(s: &str) -> Tier {
    match s {
        "quick" => Tier::Quick,
        "thorough" => Tier::Thorough,
        _ => usage(),
    }
}

fn main() {
    let args: Vec<String> = std::env::args().collect();
    if args.len() < 2 {
        usage();
    }
    match args[1].as_str() {
        "list" => {
            for p in props::all() {
                println!("{}", p.id);
            }
        }
        "run" => {
            if args.len() < 4 {
                usage();
            }
            let def = props::find(&args[2]).unwrap_or_else(|| usage());
            let tier = parse_tier(&args[3]);
            let mut seed: u64 = std::env::var("VERIF_SEED")
                .ok()
                .and_then(|s| s.trim().parse::<i64>().ok())
                .map(|v| v as u64)
                .unwrap_or(1);
            let mut i = 4;
            let mut seed_cli = None;
            while i < args.len() {
                if args[i] == "--seed" && i + 1 < args.len() {
                    seed_cli = args[i + 1].parse::<i64>().ok().map(|v| v as u64);
                    i += 1;
                }
                i += 1;
            }
            if std::env::var("VERIF_SEED").is_err() {
                if let Some(s) = seed_cli {
                    seed = s;
                }
            }
            let code = driver::run(def, tier, seed);
            std::process::exit(code);
        }
        "worker" => {
            if args.len() < 7 {
                usage();
            }
            let def = props::find(&args[2]).unwrap_or_else(|| usage());
            let tier = parse_tier(&args[3]);
            let seed: u64 = args[4].parse().unwrap();
            let shard: u32 = args[5].parse().unwrap();
            let nshards: u32 = args[6].parse().unwrap();
            driver::worker_main(def, tier, seed, shard, nshards);
        }
        "slow" => {
            if args.len() < 6 {
                usage();
            }
            let def = props::find(&args[2]).unwrap_or_else(|| usage());
            let sub = args[3].clone();
            let start: u64 = args[4].parse().unwrap();
            let count: u64 = args[5].parse().unwrap();
            driver::slow_main(def, &sub, start, count);
        }
        "fuzz" => {
            // pfv fuzz <ID> <runs> : coverage-guided stage (thorough tier)
            if args.len() < 4 {
                usage();
            }
            let def = props::find(&args[2]).unwrap_or_else(|| usage());
            let runs: u64 = args[3].parse().unwrap_or(100_000);
            let seed: u64 = std::env::var("VERIF_SEED").ok().and_then(|s| s.trim().parse::<i64>().ok()).map(|v| v as u64).unwrap_or(1);
            std::process::exit(pfv::fuzzrun::run(def, runs, seed));
        }
        "fuzz-decode" => {
            // pfv fuzz-decode <ID> <artefact> <out.json>: the case a fuzzer input denotes, as a replay document
            let raw = std::fs::read(&args[3]).unwrap();
            let doc = pfv::fuzzglue::decode(&args[2], &raw);
            std::fs::write(&args[4], serde_json::to_string(&doc).unwrap()).unwrap();
            eprintln!("decoded {} input bytes into a document of {} bytes", raw.len(), doc.to_string().len());
        }
        "digest" => {
            props::c14::digest_main(&args[2]);
        }
        "expand" => {
            // debugging aid: print the chunk structure of expand_zlib_chunks(file)
            let raw = std::fs::read(&args[2]).unwrap();
            let data = if args[2].ends_with(".json") {
                let v: serde_json::Value = serde_json::from_slice(&raw).unwrap();
                engine::doc_bytes(&v, "hex").unwrap()
            } else {
                raw
            };
            let e = preflate_rs::expand_zlib_chunks(&data, 0).unwrap();
            let chunks = model_container::parse_container(&e).unwrap();
            let ext = model_container::file_extents(&e, &chunks, &|p, c| {
                preflate_rs::recompress_deflate_stream(p, c).ok().map(|v| v.len())
            });
            eprintln!("file {} bytes, container {} bytes", data.len(), e.len());
            for (i, c) in chunks.iter().enumerate() {
                eprintln!(
                    "chunk {} {:?} data_len={} corr_len={} idat={:?} extent={:?}",
                    i,
                    c.kind,
                    c.data_len,
                    c.corr_len,
                    c.idat_sizes,
                    ext.as_ref().map(|e| e[i])
                );
            }
        }
        "replay" => {
            if args.len() < 4 {
                usage();
            }
            let def = props::find(&args[2]).unwrap_or_else(|| usage());
            let code = driver::replay_main(def, &args[3]);
            std::process::exit(code);
        }
        _ => usage(),
    }
}
