//! pfv library: generators, engine and property oracles (shared by the pfv binary and the
//! cargo-fuzz targets under harness/fuzz)
pub mod dna;
pub mod driver;
pub mod engine;
pub mod fuzzglue;
pub mod fuzzrun;
pub mod gen_comp;
pub mod gen_file;
pub mod gen_plain;
pub mod gen_stream;
pub mod gen_syn;
pub mod model_container;
pub mod props;
