//! Engine: per-worker collector, panic capture, proptest driver over DNA, ddmin,
//! replay documents, known-findings matching.

use crate::dna::{fnv64, hex, hex_trunc, unhex};
use proptest::strategy::Strategy;
use proptest::test_runner::{Config, RngAlgorithm, TestCaseError, TestError, TestRng, TestRunner};
use serde::{Deserialize, Serialize};
use serde_json::{json, Value};
use std::cell::RefCell;
use std::collections::{BTreeMap, BTreeSet};
use std::io::Write;
use std::panic::{catch_unwind, AssertUnwindSafe};
use std::path::PathBuf;

pub fn verif_root() -> PathBuf {
    PathBuf::from(std::env::var("VERIF_ROOT").unwrap_or_else(|_| "/verif".into()))
}

/// where run-time artefacts go (replays, work files, evidence). Defaults to VERIF_ROOT.
pub fn out_root() -> PathBuf {
    PathBuf::from(
        std::env::var("VERIF_OUT").unwrap_or_else(|_| verif_root().to_string_lossy().into()),
    )
}

#[derive(Clone, Copy, Debug, PartialEq, Eq, Serialize, Deserialize)]
pub enum Tier {
    Quick,
    Thorough,
}

impl Tier {
    pub fn name(&self) -> &'static str {
        match self {
            Tier::Quick => "quick",
            Tier::Thorough => "thorough",
        }
    }
}

#[derive(Clone, Debug)]
pub struct RunCfg {
    pub tier: Tier,
    pub seed: u64,
    pub shard: u32,
    pub nshards: u32,
    /// multiplies case counts (VERIF_SCALE, default 1.0); for development only
    pub scale: f64,
}

impl RunCfg {
    /// this shard's share of `total` cases
    pub fn share(&self, total: u64) -> u64 {
        let t = ((total as f64) * self.scale).ceil() as u64;
        let base = t / self.nshards as u64;
        let rem = t % self.nshards as u64;
        base + if (self.shard as u64) < rem { 1 } else { 0 }
    }
    /// deterministic 32-byte proptest seed from (VERIF_SEED, property, shard, stream)
    pub fn rng_seed(&self, prop: &str, stream: u32) -> [u8; 32] {
        let mut out = [0u8; 32];
        let mut h = fnv64(format!("{}|{}|{}|{}", self.seed, prop, self.shard, stream).as_bytes());
        for i in 0..4 {
            h = h
                .wrapping_mul(0x9E3779B97F4A7C15)
                .wrapping_add(0xD1B54A32D192ED03 ^ i as u64);
            let x = h ^ (h >> 31);
            out[i * 8..i * 8 + 8].copy_from_slice(&x.to_le_bytes());
        }
        out
    }
}

#[derive(Clone, Debug, Serialize, Deserialize)]
pub struct Failure {
    /// `<property>/<kind>/<site>` (A.2 in DESIGN.md)
    pub sig: String,
    pub detail: String,
}

impl Failure {
    pub fn new(prop: &str, kind: &str, site: &str, detail: String) -> Self {
        Failure {
            sig: format!("{}/{}/{}", prop, kind, site),
            detail,
        }
    }
}

#[derive(Clone, Debug, Serialize, Deserialize)]
pub struct FailureReport {
    pub sig: String,
    pub detail: String,
    pub replay: String,
}

#[derive(Debug, Serialize, Deserialize, Default)]
pub struct WorkerResult {
    pub shard: u32,
    pub evaluations: u64,
    pub nontrivial: Vec<u64>,
    pub classes: BTreeMap<String, u64>,
    pub samples: Vec<Value>,
    pub discards: BTreeMap<String, u64>,
    pub known_hits: BTreeMap<String, u64>,
    pub failures: Vec<FailureReport>,
    pub exhaustive: Vec<Value>,
    pub extra: BTreeMap<String, Value>,
    pub regress_replayed: u64,
    pub completed: bool,
}

pub struct Ctx {
    pub prop: &'static str,
    pub cfg: RunCfg,
    pub counting: bool,
    pub evaluations: u64,
    pub nontrivial: BTreeSet<u64>,
    pub classes: BTreeMap<String, u64>,
    pub samples: Vec<Value>,
    pub sample_budget: usize,
    pub discards: BTreeMap<String, u64>,
    pub known_hits: BTreeMap<String, u64>,
    pub failures: Vec<FailureReport>,
    pub exhaustive: Vec<Value>,
    pub extra: BTreeMap<String, Value>,
    pub regress_replayed: u64,
    pub known: Vec<KnownFinding>,
    pub inflight_path: Option<PathBuf>,
    pub strict: bool,
    /// per-case in-flight records inside exhaustive enumerations (slow re-run)
    pub slow: bool,
    /// documents of the most recent cases evaluated by this process (hidden state between
    /// calls: a failure is saved together with its predecessors so that it replays)
    pub recent: std::collections::VecDeque<Value>,
}

#[derive(Clone, Debug)]
pub struct KnownFinding {
    pub property: String,
    pub signature: String,
    pub text: String,
}

pub fn load_known_findings() -> Vec<KnownFinding> {
    let p = verif_root().join("KNOWN_FINDINGS.txt");
    let mut v = vec![];
    if let Ok(s) = std::fs::read_to_string(&p) {
        for line in s.lines() {
            let line = line.trim();
            if !line.starts_with("open:") {
                continue;
            }
            // open: property=<id> signature=<sig> <text>
            let rest = line["open:".len()..].trim();
            let mut prop = String::new();
            let mut sig = String::new();
            let mut text = String::new();
            for (i, tok) in rest.splitn(3, ' ').enumerate() {
                if i == 0 {
                    prop = tok.trim_start_matches("property=").to_string();
                } else if i == 1 {
                    sig = tok.trim_start_matches("signature=").to_string();
                } else {
                    text = tok.to_string();
                }
            }
            if !prop.is_empty() && !sig.is_empty() {
                v.push(KnownFinding {
                    property: prop,
                    signature: sig,
                    text,
                });
            }
        }
    }
    v
}

impl Ctx {
    pub fn new(prop: &'static str, cfg: RunCfg) -> Self {
        Ctx {
            prop,
            cfg,
            counting: true,
            evaluations: 0,
            nontrivial: BTreeSet::new(),
            classes: BTreeMap::new(),
            samples: vec![],
            sample_budget: 3,
            discards: BTreeMap::new(),
            known_hits: BTreeMap::new(),
            failures: vec![],
            exhaustive: vec![],
            extra: BTreeMap::new(),
            regress_replayed: 0,
            known: load_known_findings(),
            inflight_path: None,
            strict: false,
            slow: false,
            recent: std::collections::VecDeque::new(),
        }
    }

    pub fn eval(&mut self) {
        if self.counting {
            self.evaluations += 1;
        }
    }
    pub fn evals(&mut self, n: u64) {
        if self.counting {
            self.evaluations += n;
        }
    }
    pub fn class(&mut self, label: &str) {
        if self.counting {
            *self.classes.entry(label.to_string()).or_insert(0) += 1;
        }
    }
    pub fn class_n(&mut self, label: &str, n: u64) {
        if self.counting && n > 0 {
            *self.classes.entry(label.to_string()).or_insert(0) += n;
        }
    }
    pub fn nontrivial(&mut self, hash: u64) {
        if self.counting {
            self.nontrivial.insert(hash);
        }
    }
    pub fn discard(&mut self, reason: &str) {
        if self.counting {
            *self.discards.entry(reason.to_string()).or_insert(0) += 1;
        }
    }
    /// keep a few written-out cases; `interesting` samples are preferred
    pub fn sample(&mut self, v: impl FnOnce() -> Value) {
        if self.counting && self.samples.len() < self.sample_budget {
            self.samples.push(v());
        }
    }

    /// is this failure a listed open known finding? (records the hit)
    pub fn is_known(&mut self, f: &Failure) -> bool {
        for k in &self.known {
            if k.property == self.prop && k.signature == f.sig {
                *self.known_hits.entry(f.sig.clone()).or_insert(0) += 1;
                return true;
            }
        }
        false
    }

    pub fn set_inflight(&mut self, doc: &Value) {
        if doc.get("kind").and_then(|k| k.as_str()).map(|k| k != "exh" && k != "between" && k != "startup" && k != "done").unwrap_or(false) {
            // keep the last few case documents (bounded in size)
            if self.counting && doc.to_string().len() <= 600_000 {
                self.recent.push_back(doc.clone());
                while self.recent.len() > 4 {
                    self.recent.pop_front();
                }
            }
        }
        if let Some(p) = &self.inflight_path {
            // write + rename would be atomic but doubles the syscalls; the driver tolerates
            // a torn file (it then reports "undecided")
            if let Ok(mut f) = std::fs::File::create(p) {
                let _ = f.write_all(doc.to_string().as_bytes());
            }
        }
    }

    pub fn record_failure(&mut self, f: &Failure, doc: &Value) {
        let mut doc = doc.clone();
        if let Some(o) = doc.as_object_mut() {
            o.insert("property".into(), json!(self.prop));
            o.insert("sig".into(), json!(f.sig));
            o.insert("detail".into(), json!(f.detail));
            // predecessors (most recent last, the failing case itself excluded)
            // (the last entry is the failing case itself: it was recorded just before its evaluation)
            let n = self.recent.len().saturating_sub(1);
            let hist: Vec<Value> = self.recent.iter().take(n).cloned().collect();
            if !hist.is_empty() && !self.strict {
                o.insert("history".into(), json!(hist));
            }
        }
        let dir = out_root().join("replays");
        let _ = std::fs::create_dir_all(&dir);
        let name = format!(
            "{}-{:016x}-s{}.json",
            self.prop,
            fnv64(f.sig.as_bytes()),
            self.cfg.shard
        );
        let path = dir.join(name);
        let _ = std::fs::write(&path, serde_json::to_string_pretty(&doc).unwrap());
        self.failures.push(FailureReport {
            sig: f.sig.clone(),
            detail: f.detail.clone(),
            replay: path.to_string_lossy().into(),
        });
    }

    pub fn into_result(self, completed: bool) -> WorkerResult {
        WorkerResult {
            shard: self.cfg.shard,
            evaluations: self.evaluations,
            nontrivial: self.nontrivial.into_iter().collect(),
            classes: self.classes,
            samples: self.samples,
            discards: self.discards,
            known_hits: self.known_hits,
            failures: self.failures,
            exhaustive: self.exhaustive,
            extra: self.extra,
            regress_replayed: self.regress_replayed,
            completed,
        }
    }
}

// ---------------------------------------------------------------------------------------
// panic capture

thread_local! {
    static LAST_PANIC: RefCell<Option<(String, String)>> = RefCell::new(None);
}

pub fn install_panic_hook() {
    std::panic::set_hook(Box::new(|info| {
        let msg = if let Some(s) = info.payload().downcast_ref::<&str>() {
            s.to_string()
        } else if let Some(s) = info.payload().downcast_ref::<String>() {
            s.clone()
        } else {
            "<non-string panic payload>".to_string()
        };
        let file = info
            .location()
            .map(|l| format!("{}:{}", l.file(), l.line()))
            .unwrap_or_default();
        LAST_PANIC.with(|p| *p.borrow_mut() = Some((msg, file)));
    }));
}

/// true if the process-wide panic hook is still the one installed by `install_panic_hook`
/// (a probe panic is raised and caught here; our hook records its message)
pub fn panic_hook_intact() -> bool {
    match guard(|| -> () { std::panic::panic_any("pfv-hook-probe") }) {
        Err(c) => c.msg == "pfv-hook-probe",
        Ok(()) => false,
    }
}

#[derive(Debug, Clone)]
pub struct Caught {
    pub msg: String,
    /// source file (with line) of the panic
    pub location: String,
}

impl Caught {
    /// site string for signatures: file name without line, message with digits masked
    pub fn site(&self) -> String {
        let file = self.location.rsplit_once(':').map(|x| x.0).unwrap_or("");
        let file = file.rsplit('/').next().unwrap_or(file);
        let first = self.msg.lines().next().unwrap_or("");
        let mut masked = String::new();
        let mut last_hash = false;
        for c in first.chars().take(90) {
            if c.is_ascii_digit() {
                if !last_hash {
                    masked.push('#');
                }
                last_hash = true;
            } else {
                last_hash = false;
                masked.push(if c == ' ' { '_' } else { c });
            }
        }
        format!("{}:{}", file, masked)
    }
    /// true if the panic originated in the harness itself rather than in the library
    pub fn in_harness(&self) -> bool {
        self.location.contains("harness/src") || self.location.starts_with("src/")
    }
}

pub fn guard<T>(f: impl FnOnce() -> T) -> Result<T, Caught> {
    LAST_PANIC.with(|p| *p.borrow_mut() = None);
    match catch_unwind(AssertUnwindSafe(f)) {
        Ok(v) => Ok(v),
        Err(_) => {
            let (msg, location) = LAST_PANIC
                .with(|p| p.borrow_mut().take())
                .unwrap_or(("<unknown>".into(), "".into()));
            Err(Caught { msg, location })
        }
    }
}

pub fn panic_failure(prop: &str, stage: &str, c: &Caught) -> Failure {
    Failure::new(
        prop,
        "panic",
        &c.site(),
        format!("panic in {}: {} at {}", stage, c.msg, c.location),
    )
}

// ---------------------------------------------------------------------------------------
// replay documents

pub fn bytes_doc(data: &[u8]) -> Value {
    json!({"kind": "bytes", "hex": hex(data)})
}

pub fn doc_bytes(doc: &Value, key: &str) -> Option<Vec<u8>> {
    doc.get(key).and_then(|v| v.as_str()).and_then(unhex)
}

pub fn load_replay(path: &str) -> Result<Value, String> {
    let raw = std::fs::read(path).map_err(|e| format!("cannot read {}: {}", path, e))?;
    if path.ends_with(".json") {
        serde_json::from_slice(&raw).map_err(|e| format!("bad json in {}: {}", path, e))
    } else {
        Ok(bytes_doc(&raw))
    }
}

pub fn sample_bytes(label: &str, data: &[u8], info: Value) -> Value {
    json!({"case": label, "len": data.len(), "hex": hex_trunc(data, 96), "info": info})
}

// ---------------------------------------------------------------------------------------
// proptest driver over DNA

pub struct DnaRun {
    pub cases: u64,
    pub max_dna: usize,
    pub shrink_iters: u32,
    pub stream: u32,
}

/// Runs `cases` generated cases. `eval` gets the DNA and the collector and returns
/// Err(Failure, replay-doc) when the oracle is violated. Known findings are tolerated
/// (counted). On the first real failure proptest shrinks the DNA (staying on the same
/// signature) and the minimal (Failure, doc) is returned.
pub fn run_dna<F>(ctx: &mut Ctx, run: &DnaRun, eval: F) -> Option<(Failure, Value)>
where
    F: Fn(&[u8], &mut Ctx) -> Result<(), (Failure, Value)>,
{
    if run.cases == 0 {
        return None;
    }
    let config = Config {
        cases: run.cases as u32,
        max_shrink_iters: run.shrink_iters,
        failure_persistence: None,
        max_global_rejects: 1_000_000,
        ..Config::default()
    };
    let rng = TestRng::from_seed(RngAlgorithm::ChaCha, &ctx.cfg.rng_seed(ctx.prop, run.stream));
    let mut runner = TestRunner::new_with_rng(config, rng);
    let strategy = proptest::collection::vec(proptest::num::u8::ANY, 0..=run.max_dna);

    let cell = RefCell::new((ctx, None::<String>, None::<(Failure, Value)>));
    let result = runner.run(&strategy, |dna| {
        let mut g = cell.borrow_mut();
        let (ctx, first_sig, last_fail) = &mut *g;
        match eval(&dna, ctx) {
            Ok(()) => Ok(()),
            Err((f, doc)) => {
                if ctx.is_known(&f) {
                    return Ok(());
                }
                match first_sig {
                    None => {
                        *first_sig = Some(f.sig.clone());
                        ctx.counting = false;
                    }
                    Some(s) if *s != f.sig => {
                        // a different failure met while shrinking: stay on the first one
                        return Ok(());
                    }
                    _ => {}
                }
                let sig = f.sig.clone();
                *last_fail = Some((f, doc));
                Err(TestCaseError::fail(sig))
            }
        }
    });
    let (ctx, _first, last_fail) = cell.into_inner();
    match result {
        Ok(()) => None,
        Err(TestError::Fail(_, minimal_dna)) => {
            // re-evaluate the minimal DNA to get its document (last_fail may be a later,
            // non-minimal attempt)
            let was = ctx.counting;
            ctx.counting = false;
            let r = eval(&minimal_dna, ctx);
            ctx.counting = was;
            match r {
                Err(fd) => Some(fd),
                Ok(()) => last_fail,
            }
        }
        Err(TestError::Abort(reason)) => {
            ctx.extra
                .insert("proptest_abort".into(), json!(reason.to_string()));
            last_fail
        }
    }
}

/// ddmin-style minimisation of a byte string: `still_fails` must return true when the
/// candidate fails with the same signature. Bounded by `budget` evaluations.
pub fn ddmin_bytes(data: &[u8], budget: usize, mut still_fails: impl FnMut(&[u8]) -> bool) -> Vec<u8> {
    let mut cur = data.to_vec();
    let mut used = 0usize;
    // 1. tail truncation by bisection
    let mut lo = 0usize;
    let mut hi = cur.len();
    while lo < hi && used < budget {
        let mid = (lo + hi) / 2;
        used += 1;
        if still_fails(&cur[..mid]) {
            hi = mid;
        } else {
            lo = mid + 1;
        }
    }
    if hi < cur.len() {
        used += 1;
        if still_fails(&cur[..hi]) {
            cur.truncate(hi);
        }
    }
    // 2. chunk removal
    let mut chunk = (cur.len() / 2).max(1);
    while chunk >= 1 && used < budget {
        let mut i = 0;
        let mut changed = false;
        while i < cur.len() && used < budget {
            let end = (i + chunk).min(cur.len());
            let mut cand = cur[..i].to_vec();
            cand.extend_from_slice(&cur[end..]);
            used += 1;
            if still_fails(&cand) {
                cur = cand;
                changed = true;
            } else {
                i += chunk;
            }
        }
        if chunk == 1 && !changed {
            break;
        }
        if chunk > 1 {
            chunk /= 2;
        } else if !changed {
            break;
        }
    }
    // 3. byte zeroing
    let mut i = 0;
    while i < cur.len() && used < budget {
        if cur[i] != 0 {
            let old = cur[i];
            cur[i] = 0;
            used += 1;
            if !still_fails(&cur) {
                cur[i] = old;
            }
        }
        i += 1;
    }
    cur
}

/// common tail for byte-string properties: minimise the failing bytes (key `hex` of the
/// doc) with `check`, then record the failure.
pub fn minimise_and_record(
    ctx: &mut Ctx,
    f: Failure,
    doc: Value,
    budget: usize,
    check: impl Fn(&[u8], &Value, &mut Ctx) -> Result<(), Failure>,
) {
    let mut doc = doc;
    if let Some(bytes) = doc_bytes(&doc, "hex") {
        let was = ctx.counting;
        ctx.counting = false;
        let sig = f.sig.clone();
        let doc_ro = doc.clone();
        let min = ddmin_bytes(&bytes, budget, |cand| match check(cand, &doc_ro, ctx) {
            Err(f2) => f2.sig == sig,
            Ok(()) => false,
        });
        ctx.counting = was;
        if min.len() < bytes.len() || min != bytes {
            if let Some(o) = doc.as_object_mut() {
                o.insert("hex".into(), json!(hex(&min)));
                o.insert("original_len".into(), json!(bytes.len()));
            }
        }
    }
    ctx.record_failure(&f, &doc);
}
