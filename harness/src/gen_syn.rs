//! G-SYN: an independent DEFLATE *encoder* that uses the freedoms of the format which no
//! mainstream compressor uses: arbitrary (non-greedy, non-nearest) matches, arbitrary block
//! splits, random complete prefix codes, random header run-length choices, HLIT/HDIST/HCLEN
//! slack, non-zero padding bits, empty blocks, length 258 coded as 284+31, trailing garbage.
//! Written from RFC 1951 only; shares no code with the library under test.

use crate::dna::{Dna, Mix};
use std::collections::HashMap;

#[derive(Clone, Copy, Debug, PartialEq, Eq)]
pub enum Tok {
    Lit(u8),
    Ref { len: u16, dist: u32, irregular: bool },
}

#[derive(Clone, Debug, Default)]
pub struct SynFeatures {
    pub tokens: usize,
    pub references: usize,
    pub blocks: usize,
    pub stored: usize,
    pub fixed: usize,
    pub dynamic: usize,
    pub empty_blocks: usize,
    pub irregular258: usize,
    pub len258: usize,
    pub nonzero_padding: bool,
    pub nonzero_stored_padding: bool,
    pub hlit_slack: usize,
    pub hdist_slack: usize,
    pub hclen_slack: usize,
    pub hlit_gt286: bool,
    pub hdist_gt30: bool,
    pub rep16_after_zero: usize,
    pub rep_cross_boundary: usize,
    pub no_rle_header: usize,
    pub spare_symbols: usize,
    pub single_dist_code: bool,
    pub single_dist_alias: bool,
    pub mono_dist_refs: usize,
    pub echo_refs: usize,
    pub no_dist_code: bool,
    pub trailing_garbage: usize,
    pub big_block: bool,
    pub max_dist: usize,
    pub dist_eq_pos: usize,
    /// the stream is deliberately invalid (length symbol without a usable distance code)
    pub poisoned: bool,
    /// blocks with identical run-length coded headers but different HLIT/HDIST split
    pub split_shift: bool,
    pub filler: bool,
    pub hot_zone_tokens: usize,
    pub max_header: bool,
    pub mode: &'static str,
}

impl SynFeatures {
    pub fn labels(&self) -> Vec<&'static str> {
        let mut v = vec![];
        if self.stored > 0 {
            v.push("syn:stored");
        }
        if self.fixed > 0 {
            v.push("syn:fixed");
        }
        if self.dynamic > 0 {
            v.push("syn:dynamic");
        }
        if self.empty_blocks > 0 {
            v.push("syn:empty-block");
        }
        if self.irregular258 > 0 {
            v.push("syn:irregular258");
        }
        if self.len258 > 0 {
            v.push("syn:len258");
        }
        if self.nonzero_padding {
            v.push("syn:nonzero-final-padding");
        }
        if self.nonzero_stored_padding {
            v.push("syn:nonzero-stored-padding");
        }
        if self.hlit_slack > 0 {
            v.push("syn:hlit-slack");
        }
        if self.hdist_slack > 0 {
            v.push("syn:hdist-slack");
        }
        if self.hclen_slack > 0 {
            v.push("syn:hclen-slack");
        }
        if self.hlit_gt286 {
            v.push("syn:hlit>286");
        }
        if self.hdist_gt30 {
            v.push("syn:hdist>30");
        }
        if self.rep16_after_zero > 0 {
            v.push("syn:16-after-zero");
        }
        if self.rep_cross_boundary > 0 {
            v.push("syn:rle-crosses-lit/dist");
        }
        if self.no_rle_header > 0 {
            v.push("syn:header-without-16-18");
        }
        if self.spare_symbols > 0 {
            v.push("syn:spare-symbols");
        }
        if self.single_dist_code {
            v.push("syn:single-dist-code");
        }
        if self.single_dist_alias {
            v.push("syn:single-dist-code-unassigned-codeword");
        }
        if self.echo_refs > 0 {
            v.push("syn:echo-references(non-nearest,high-entropy)");
        }
        if self.mono_dist_refs > 0 {
            v.push("syn:one-distance-symbol-run");
        }
        if self.no_dist_code {
            v.push("syn:no-dist-code");
        }
        if self.trailing_garbage > 0 {
            v.push("syn:trailing-garbage");
        }
        if self.big_block {
            v.push("syn:block>65535-tokens");
        }
        if self.max_dist > 32768 - 262 {
            v.push("syn:far-distance");
        }
        if self.dist_eq_pos > 0 {
            v.push("syn:dist==pos");
        }
        if self.references > 0 {
            v.push("syn:has-references");
        }
        if self.poisoned {
            v.push("syn:INVALID-length-symbol-without-distance-code");
        }
        if self.split_shift {
            v.push("syn:same-header-different-hlit/hdist-split");
        }
        if self.hot_zone_tokens > 0 {
            v.push("syn:tokens-at-hash-rebase-position");
        }
        if self.max_header {
            v.push("syn:HLIT=288,HDIST=32");
        }
        v
    }
}

const LEN_BASE: [u16; 29] = [
    3, 4, 5, 6, 7, 8, 9, 10, 11, 13, 15, 17, 19, 23, 27, 31, 35, 43, 51, 59, 67, 83, 99, 115, 131,
    163, 195, 227, 258,
];
const LEN_EXTRA: [u8; 29] = [
    0, 0, 0, 0, 0, 0, 0, 0, 1, 1, 1, 1, 2, 2, 2, 2, 3, 3, 3, 3, 4, 4, 4, 4, 5, 5, 5, 5, 0,
];
const DIST_BASE: [u16; 30] = [
    1, 2, 3, 4, 5, 7, 9, 13, 17, 25, 33, 49, 65, 97, 129, 193, 257, 385, 513, 769, 1025, 1537,
    2049, 3073, 4097, 6145, 8193, 12289, 16385, 24577,
];
const DIST_EXTRA: [u8; 30] = [
    0, 0, 0, 0, 1, 1, 2, 2, 3, 3, 4, 4, 5, 5, 6, 6, 7, 7, 8, 8, 9, 9, 10, 10, 11, 11, 12, 12, 13,
    13,
];
const CL_ORDER: [usize; 19] = [
    16, 17, 18, 0, 8, 7, 9, 6, 10, 5, 11, 4, 12, 3, 13, 2, 14, 1, 15,
];

/// (symbol, extra bits count, extra value) for a length; `irregular` codes 258 as 284+31
pub fn len_code(len: u16, irregular: bool) -> (usize, u8, u16) {
    if len == 258 {
        return if irregular { (284, 5, 31) } else { (285, 0, 0) };
    }
    let mut c = 0;
    while c + 1 < 28 && LEN_BASE[c + 1] <= len {
        c += 1;
    }
    (257 + c, LEN_EXTRA[c], len - LEN_BASE[c])
}

pub fn dist_code(dist: u32) -> (usize, u8, u16) {
    let mut c = 0;
    while c + 1 < 30 && DIST_BASE[c + 1] as u32 <= dist {
        c += 1;
    }
    (c, DIST_EXTRA[c], (dist - DIST_BASE[c] as u32) as u16)
}

pub struct BitW {
    pub out: Vec<u8>,
    acc: u64,
    n: u32,
}

impl BitW {
    pub fn new() -> Self {
        BitW {
            out: Vec::new(),
            acc: 0,
            n: 0,
        }
    }
    /// LSB-first value of `bits` bits
    pub fn put(&mut self, v: u32, bits: u32) {
        debug_assert!(bits <= 32);
        if bits == 0 {
            return;
        }
        self.acc |= ((v as u64) & ((1u64 << bits) - 1)) << self.n;
        self.n += bits;
        while self.n >= 8 {
            self.out.push(self.acc as u8);
            self.acc >>= 8;
            self.n -= 8;
        }
    }
    /// Huffman code: `code` has `len` bits, sent MSB first
    pub fn put_code(&mut self, code: u16, len: u8) {
        let mut r = 0u32;
        for i in 0..len {
            if code & (1 << i) != 0 {
                r |= 1 << (len - 1 - i);
            }
        }
        self.put(r, len as u32);
    }
    pub fn bit_offset(&self) -> u32 {
        self.n
    }
    /// pad to the byte boundary with the low bits of `pattern`
    pub fn pad(&mut self, pattern: u8) {
        if self.n > 0 {
            let k = 8 - self.n;
            self.put(pattern as u32, k);
        }
    }
    pub fn bytes(&mut self, b: &[u8]) {
        debug_assert!(self.n == 0);
        self.out.extend_from_slice(b);
    }
}

/// canonical codes from lengths (RFC 1951 3.2.2)
pub fn canonical_codes(lengths: &[u8]) -> Vec<u16> {
    let mut bl_count = [0u32; 17];
    for &l in lengths {
        bl_count[l as usize] += 1;
    }
    bl_count[0] = 0;
    let mut next = [0u32; 17];
    let mut code = 0u32;
    for b in 1..=16 {
        code = (code + bl_count[b - 1]) << 1;
        next[b] = code;
    }
    lengths
        .iter()
        .map(|&l| {
            if l == 0 {
                0
            } else {
                let c = next[l as usize];
                next[l as usize] += 1;
                c as u16
            }
        })
        .collect()
}

thread_local! {
    /// when set, `random_complete_depths` builds maximally skewed trees
    static SKEW: std::cell::Cell<bool> = std::cell::Cell::new(false);
}

/// random complete prefix code with `n` leaves and depth <= maxdepth; returns the multiset
/// of depths (unsorted). n >= 2, n <= 2^maxdepth.
fn random_complete_depths(n: usize, maxdepth: u8, mix: &mut Mix, balanced: bool) -> Vec<u8> {
    assert!(n >= 2);
    let mut leaves: Vec<u8> = vec![1, 1];
    while leaves.len() < n {
        // pick a leaf that can still be split
        let cands: Vec<usize> = (0..leaves.len())
            .filter(|&i| leaves[i] < maxdepth)
            .collect();
        // capacity argument: as long as n <= 2^maxdepth a splittable leaf exists
        let i = if balanced {
            // split the shallowest leaf -> near-balanced tree
            *cands.iter().min_by_key(|&&i| leaves[i]).unwrap()
        } else if SKEW.with(|s| s.get()) {
            // split the deepest splittable leaf -> chain-like tree with codes up to maxdepth bits
            *cands.iter().max_by_key(|&&i| leaves[i]).unwrap()
        } else {
            cands[mix.below(cands.len())]
        };
        let d = leaves[i] + 1;
        leaves[i] = d;
        leaves.push(d);
    }
    // the remaining capacity must never run out: check Kraft equality
    debug_assert_eq!(
        leaves.iter().map(|&d| 1u64 << (16 - d)).sum::<u64>(),
        1u64 << 16
    );
    leaves
}

/// Build code lengths for an alphabet of `alpha` symbols where `used[s]` marks symbols that
/// must get a code. Returns lengths (0 = no code). Spare leaves may be handed to unused
/// symbols below `spare_limit`.
fn build_random_code(
    used: &[bool],
    maxdepth: u8,
    spare_limit: usize,
    mix: &mut Mix,
    freq: Option<&[u32]>,
    spare_count: &mut usize,
) -> Vec<u8> {
    let alpha = used.len();
    let mut syms: Vec<usize> = (0..alpha).filter(|&s| used[s]).collect();
    // add spare symbols (unused symbols that still get a code)
    let mut spares = 0;
    if syms.len() < 2 || mix.chance(20) {
        let want = if syms.len() < 2 { 2 - syms.len() } else { mix.range(1, 3) };
        let mut tries = 0;
        while spares < want && tries < 200 {
            tries += 1;
            let s = mix.below(spare_limit.min(alpha));
            if !syms.contains(&s) {
                syms.push(s);
                spares += 1;
            }
        }
    }
    // sometimes every symbol of the alphabet gets a code (legal; makes large same-length
    // groups such as 256 symbols of one length reachable)
    if alpha > 30 && mix.chance(12) {
        for s in 0..spare_limit.min(alpha) {
            if !syms.contains(&s) {
                syms.push(s);
                spares += 1;
            }
        }
    }
    *spare_count += spares;
    let n = syms.len();
    let style = mix.below(10);
    let mut depths: Vec<u8>;
    let group_style = n >= 8 && mix.chance(25);
    let mut grouped_ok = false;
    depths = vec![];
    if group_style {
        // k "short" symbols in a random tree plus one balanced subtree holding the other m
        // symbols: many symbols share one length; m is biased to the 8-bit boundary
        let m_choices = [255usize, 256, 257, 128, 64, n - 1, n - 2, n / 2];
        let mut m = m_choices[mix.below(m_choices.len())];
        if m >= n {
            m = n - 1;
        }
        if m >= 2 {
            let k = n - m;
            let need = (usize::BITS - (m - 1).leading_zeros()) as u8; // ceil(log2 m)
            if need < maxdepth && k + 1 >= 2 && (k + 1) <= (1usize << (maxdepth as usize).min(20)) {
                // the top tree may be as deep as the alphabet allows, so that symbols with
                // codes LONGER than the group's shared length exist as well; the group hangs
                // under a random leaf that is shallow enough
                for _try in 0..8 {
                    let top = random_complete_depths(k + 1, maxdepth, mix, false);
                    let eligible: Vec<usize> = (0..top.len()).filter(|&i| top[i] + need <= maxdepth).collect();
                    if eligible.is_empty() {
                        continue;
                    }
                    let ri = eligible[mix.below(eligible.len())];
                    let r = top[ri];
                    let sub = random_complete_depths(m, maxdepth - r, mix, true);
                    let mut d: Vec<u8> = top.iter().enumerate().filter(|(i, _)| *i != ri).map(|(_, &x)| x).collect();
                    d.extend(sub.iter().map(|&x| x + r));
                    depths = d;
                    grouped_ok = true;
                    break;
                }
            }
        }
    }
    if !grouped_ok {
        // 15 %: skewed (chain-like) code with the longest possible codes
        let skew = mix.chance(15);
        SKEW.with(|s| s.set(skew));
        depths = random_complete_depths(n, maxdepth, mix, !skew && style < 3);
        SKEW.with(|s| s.set(false));
    }
    // assign depths: either randomly, or shorter codes to more frequent symbols
    if let (Some(f), true) = (freq, style >= 5) {
        depths.sort();
        syms.sort_by(|&a, &b| f[b].cmp(&f[a]).then(a.cmp(&b)));
    } else {
        // shuffle depths
        for i in (1..depths.len()).rev() {
            let j = mix.below(i + 1);
            depths.swap(i, j);
        }
    }
    let mut lengths = vec![0u8; alpha];
    for (i, &s) in syms.iter().enumerate() {
        lengths[s] = depths[i];
    }
    lengths
}

#[derive(Clone, Debug)]
pub struct SynStream {
    pub bytes: Vec<u8>,
    /// length of the DEFLATE stream proper (without trailing garbage)
    pub stream_len: usize,
    pub plain: Vec<u8>,
    pub features: SynFeatures,
    /// false when the stream deliberately uses shapes zlib's inflate rejects
    pub zlib_should_accept: bool,
}

fn pick_len(mix: &mut Mix) -> u16 {
    match mix.below(10) {
        0..=3 => mix.range(3, 10) as u16,
        4..=5 => {
            // boundaries of length codes
            let c = mix.below(29);
            let base = LEN_BASE[c];
            let span = (1u16 << LEN_EXTRA[c]) - 1;
            let v = if mix.chance(50) { base } else { base + span };
            v.min(258)
        }
        6 => 258,
        7 => mix.range(255, 258) as u16,
        _ => mix.range(3, 258) as u16,
    }
}

fn pick_dist(mix: &mut Mix, pos: usize) -> u32 {
    let maxd = pos.min(32768);
    let d = match mix.below(10) {
        0..=2 => mix.range(1, maxd.min(16)),
        3..=4 => {
            let c = mix.below(30);
            let base = DIST_BASE[c] as usize;
            let span = (1usize << DIST_EXTRA[c]) - 1;
            if mix.chance(50) {
                base
            } else {
                base + span
            }
        }
        5 => pos, // distance == position (match to start)
        6 => [32768usize, 32767, 32506, 32507, 32505, 4096, 4095, 4093, 258, 257, 259]
            [mix.below(11)],
        _ => mix.range(1, maxd),
    };
    d.clamp(1, maxd) as u32
}

/// token mode: tokens first, plaintext derived
/// positions at which the library's hash chains are re-based (first at 0xfe00, then every 0x7e00)
fn next_rebase(pos: usize) -> usize {
    let first = 0xfe00usize;
    if pos <= first {
        first
    } else {
        first + ((pos - first + 0x7e00 - 1) / 0x7e00) * 0x7e00
    }
}

fn gen_tokens_token_mode(dna: &mut Dna, feat: &mut SynFeatures, max_plain: usize) -> (Vec<Tok>, Vec<u8>) {
    let nruns = dna.range(1, 6);
    let mut toks = Vec::new();
    let mut plain: Vec<u8> = Vec::new();
    // "filler": get close to the first hash-chain re-base position (64 KiB) quickly, so that the
    // generated tokens around it (hot zone below) are reached with few tokens
    if max_plain > 70_000 && dna.chance(15) {
        let mut m = Mix::new(dna.u64());
        let target = 0xfe00usize.saturating_sub(m.range(0, 3000));
        let alpha = [1usize, 3, 16, 256][m.below(4)];
        for _ in 0..m.range(4, 300) {
            let b = if alpha == 256 { m.u8() } else { b'a' + m.below(alpha) as u8 };
            plain.push(b);
            toks.push(Tok::Lit(b));
        }
        while plain.len() + 258 < target {
            let len = if m.chance(80) { 258 } else { m.range(3, 258) as u16 };
            let dist = pick_dist(&mut m, plain.len());
            let st = plain.len() - dist as usize;
            for i in 0..len as usize {
                let b = plain[st + i];
                plain.push(b);
            }
            toks.push(Tok::Ref { len, dist, irregular: false });
        }
        feat.filler = true;
    }
    // "echo": high-entropy bytes, then short copies of random pieces of them, then references
    // to the ORIGINAL pieces although the copies are nearer. Every such reference is a
    // non-nearest candidate of its hash chain, and chains over high-entropy data hold true
    // hash collisions between the candidates.
    if max_plain >= 30_000 && plain.is_empty() && dna.chance(6) {
        let mut m = Mix::new(dna.u64());
        let n_r = m.range(3000, 22000);
        for _ in 0..n_r {
            let b = m.u8();
            plain.push(b);
            toks.push(Tok::Lit(b));
        }
        let k = m.range(40, 500);
        let long = m.chance(30);
        let mut segs: Vec<(usize, u16)> = vec![];
        for _ in 0..k {
            let len = if long { m.range(3, 40) } else { m.range(4, 9) } as u16;
            let s = m.below(n_r - len as usize);
            let dist = plain.len() - s;
            if dist > 32768 {
                continue;
            }
            for i in 0..len as usize {
                let b = plain[s + i];
                plain.push(b);
            }
            toks.push(Tok::Ref { len, dist: dist as u32, irregular: false });
            segs.push((s, len));
            if m.chance(20) {
                let b = m.u8();
                plain.push(b);
                toks.push(Tok::Lit(b));
            }
        }
        for &(s, len) in segs.iter() {
            let dist = plain.len() - s;
            if dist > 32768 {
                let b = m.u8();
                plain.push(b);
                toks.push(Tok::Lit(b));
                continue;
            }
            for i in 0..len as usize {
                let b = plain[s + i];
                plain.push(b);
            }
            toks.push(Tok::Ref { len, dist: dist as u32, irregular: false });
            feat.echo_refs += 1;
        }
    }
    for _ in 0..nruns {
        let count = match dna.weighted(&[35, 35, 20, 8, 2]) {
            0 => dna.range(0, 8),
            1 => dna.range(8, 100),
            2 => dna.range(100, 2000),
            3 => dna.range(2000, 20000),
            _ => dna.range(20000, 70000),
        };
        let ref_pct = [0u32, 5, 30, 60, 95][dna.weighted(&[10, 20, 35, 25, 10])];
        let alpha = [1usize, 2, 4, 16, 256][dna.weighted(&[5, 15, 25, 25, 30])];
        let irregular_pct = [0u32, 0, 50, 100][dna.below(4)];
        let seed = dna.u64();
        let mut mix = Mix::new(seed);
        // "mono" run: every reference of the run uses one distance symbol, so that blocks whose
        // distance alphabet has a single used symbol (single-code tables) carry references
        let mono: Option<usize> = if mix.chance(12) { Some([0usize, 0, 1, 3, 4, 9, 16, 29][mix.below(8)].max(mix.below(30) * mix.below(2))) } else { None };
        for _ in 0..count {
            // hot zone: within a few hundred bytes of a re-base position prefer maximum-length
            // and window-edge references at every alignment
            let nb = next_rebase(plain.len());
            let hot = plain.len() > 40_000 && (nb - plain.len() < 600 || plain.len() + 0x7e00 - nb < 300);
            if hot && mono.is_none() && mix.chance(70) {
                let len = if mix.chance(50) { 258 } else { pick_len(&mut mix) };
                let dist = if mix.chance(50) {
                    (32768 - mix.below(12)).min(plain.len()) as u32
                } else {
                    pick_dist(&mut mix, plain.len())
                };
                let st = plain.len() - dist as usize;
                for i in 0..len as usize {
                    let b = plain[st + i];
                    plain.push(b);
                }
                toks.push(Tok::Ref { len, dist, irregular: false });
                feat.hot_zone_tokens += 1;
                continue;
            }
            if !plain.is_empty() && mix.chance(ref_pct) {
                let len = pick_len(&mut mix);
                let mut dist = pick_dist(&mut mix, plain.len());
                if let Some(c) = mono {
                    let base = DIST_BASE[c] as usize;
                    if base > plain.len() {
                        // the symbol's range is not reachable yet: a literal instead
                        let b = if alpha == 256 { mix.u8() } else { b'a' + mix.below(alpha) as u8 };
                        plain.push(b);
                        toks.push(Tok::Lit(b));
                        continue;
                    }
                    let d = (base + mix.below(1usize << DIST_EXTRA[c])).min(plain.len());
                    dist = d as u32;
                    feat.mono_dist_refs += 1;
                }
                let irregular = len == 258 && mix.chance(irregular_pct);
                if dist as usize == plain.len() {
                    feat.dist_eq_pos += 1;
                }
                let start = plain.len() - dist as usize;
                for i in 0..len as usize {
                    let b = plain[start + i];
                    plain.push(b);
                }
                toks.push(Tok::Ref {
                    len,
                    dist,
                    irregular,
                });
            } else {
                let b = if alpha == 256 {
                    mix.u8()
                } else {
                    b'a' + mix.below(alpha) as u8
                };
                plain.push(b);
                toks.push(Tok::Lit(b));
            }
            if plain.len() > max_plain {
                break;
            }
        }
    }
    feat.mode = "token";
    (toks, plain)
}

/// parse mode: random non-greedy, non-nearest parse of a given plaintext
pub fn parse_plain(plain: &[u8], mix: &mut Mix, ref_pct: u32, irregular_pct: u32) -> Vec<Tok> {
    let mut toks = Vec::new();
    let mut index: HashMap<[u8; 3], Vec<u32>> = HashMap::new();
    let mut pos = 0usize;
    let mut indexed = 0usize;
    let n = plain.len();
    while pos < n {
        // index everything before pos
        while indexed < pos && indexed + 2 < n {
            let k = [plain[indexed], plain[indexed + 1], plain[indexed + 2]];
            let e = index.entry(k).or_default();
            e.push(indexed as u32);
            if e.len() > 24 {
                e.remove(mix.below(8));
            }
            indexed += 1;
        }
        let mut emitted = false;
        if pos + 3 <= n && mix.chance(ref_pct) {
            let k = [plain[pos], plain[pos + 1], plain[pos + 2]];
            if let Some(c) = index.get(&k) {
                // candidates within 32 KiB
                let cands: Vec<u32> = c
                    .iter()
                    .copied()
                    .filter(|&p| pos - (p as usize) <= 32768)
                    .collect();
                if !cands.is_empty() {
                    let p = cands[mix.below(cands.len())] as usize;
                    let mut l = 0;
                    while l < 258 && pos + l < n && plain[p + l] == plain[pos + l] {
                        l += 1;
                    }
                    if l >= 3 {
                        let len = match mix.below(4) {
                            0 => l,
                            1 => mix.range(3, l),
                            2 => 3.max(l.saturating_sub(mix.below(3))),
                            _ => l,
                        };
                        toks.push(Tok::Ref {
                            len: len as u16,
                            dist: (pos - p) as u32,
                            irregular: len == 258 && mix.chance(irregular_pct),
                        });
                        pos += len;
                        emitted = true;
                    }
                }
            }
        }
        if !emitted {
            toks.push(Tok::Lit(plain[pos]));
            pos += 1;
        }
    }
    toks
}

#[derive(Clone, Copy, PartialEq, Eq, Debug)]
enum BType {
    Stored,
    Fixed,
    Dynamic,
}

struct HeaderOpts {
    hlit_slack: u32,   // pct chance of trailing-zero slack
    hdist_slack: u32,
    hclen_slack: u32,
    exotic: bool,      // allow hlit>286 / hdist>30 / single dist code / no dist code
    rle_style: usize,  // 0 = random, 1 = none (no 16-18), 2 = greedy zlib-like
}

/// emit a dynamic header + return (litlen lengths, dist lengths) actually in force
fn emit_dynamic_header(
    w: &mut BitW,
    lit_used: &[bool; 288],
    dist_used: &[bool; 32],
    lit_freq: &[u32],
    dist_freq: &[u32],
    opts: &HeaderOpts,
    mix: &mut Mix,
    feat: &mut SynFeatures,
    zlib_ok: &mut bool,
) -> (Vec<u8>, Vec<u8>) {
    // literal/length code
    let lit_spare_limit = if opts.exotic && mix.chance(15) { 288 } else { 286 };
    let mut lit_len = build_random_code(
        &lit_used[..],
        15,
        lit_spare_limit,
        mix,
        Some(lit_freq),
        &mut feat.spare_symbols,
    );
    // distance code
    let any_dist = dist_used.iter().any(|&b| b);
    let mut dist_len: Vec<u8>;
    if !any_dist {
        match if opts.exotic { mix.below(10) } else { 0 } {
            8 => {
                // single distance code of length 1 (legal, incomplete)
                dist_len = vec![0u8; 32];
                dist_len[mix.below(30)] = 1;
                feat.single_dist_code = true;
            }
            9 => {
                // no distance code at all: HDIST=1 with length 0
                dist_len = vec![0u8; 32];
                feat.no_dist_code = true;
            }
            _ => {
                // zlib style: two codes of length 1 (or a random complete code)
                let mut used = [false; 32];
                if mix.chance(70) {
                    used[0] = true;
                    used[1] = true;
                    dist_len = vec![0u8; 32];
                    dist_len[0] = 1;
                    dist_len[1] = 1;
                } else {
                    let k = mix.range(2, 6);
                    for _ in 0..k {
                        used[mix.below(30)] = true;
                    }
                    dist_len = build_random_code(
                        &used[..],
                        15,
                        30,
                        mix,
                        None,
                        &mut feat.spare_symbols,
                    );
                }
            }
        }
    } else {
        let n_used = dist_used.iter().filter(|&&b| b).count();
        if n_used == 1 && opts.exotic && mix.chance(50) {
            dist_len = vec![0u8; 32];
            let s = dist_used.iter().position(|&b| b).unwrap();
            dist_len[s] = 1;
            feat.single_dist_code = true;
        } else {
            let dist_spare_limit = if opts.exotic && mix.chance(15) { 32 } else { 30 };
            dist_len = build_random_code(
                &dist_used[..],
                15,
                dist_spare_limit,
                mix,
                Some(dist_freq),
                &mut feat.spare_symbols,
            );
        }
    }
    if feat.single_dist_code || feat.no_dist_code {
        // zlib accepts a single distance code ("incomplete set allowed only for one code");
        // it accepts no-dist-code only when no length symbol is used. Leave the claim off.
        *zlib_ok = false;
    }

    // HLIT / HDIST
    let min_hlit = (0..288).rev().find(|&s| lit_len[s] != 0).unwrap_or(256).max(256) + 1;
    let mut hlit = min_hlit;
    if mix.chance(opts.hlit_slack) {
        let maxh = if opts.exotic && mix.chance(20) { 288 } else { 286 };
        if maxh > hlit {
            let extra = mix.range(1, maxh - hlit);
            hlit += extra;
            feat.hlit_slack += extra;
        }
    }
    if hlit > 286 {
        feat.hlit_gt286 = true;
        *zlib_ok = false;
    }
    let min_hdist = (0..32).rev().find(|&s| dist_len[s] != 0).unwrap_or(0) + 1;
    let mut hdist = min_hdist;
    if mix.chance(opts.hdist_slack) {
        let maxh = if opts.exotic && mix.chance(20) { 32 } else { 30 };
        if maxh > hdist {
            let extra = mix.range(1, maxh - hdist);
            hdist += extra;
            feat.hdist_slack += extra;
        }
    }
    if opts.exotic && mix.chance(10) {
        // the largest header the 5-bit fields can express
        hlit = 288;
        hdist = 32;
        feat.max_header = true;
        feat.hlit_gt286 = true;
    }
    if hdist > 30 {
        feat.hdist_gt30 = true;
        *zlib_ok = false;
    }
    if hlit > 286 {
        *zlib_ok = false;
    }
    lit_len.truncate(hlit);
    dist_len.truncate(hdist);

    // combined length sequence and its run-length coding
    let mut seq: Vec<u8> = lit_len.clone();
    seq.extend_from_slice(&dist_len);
    // items: (symbol 0..18, extra value)
    let mut items: Vec<(u8, u8)> = Vec::new();
    let mut i = 0;
    let total = seq.len();
    let mut used_rle = false;
    while i < total {
        let v = seq[i];
        // run of identical values starting at i
        let mut run = 1;
        while i + run < total && seq[i + run] == v {
            run += 1;
        }
        let style = opts.rle_style;
        if style == 1 {
            items.push((v, 0));
            i += 1;
            continue;
        }
        if v == 0 {
            // options: literal 0; 17 (3..10); 18 (11..138); 16 if previous is 0 as well (3..6)
            let mut opts_v: Vec<u8> = vec![0];
            if run >= 3 {
                opts_v.push(17);
            }
            if run >= 11 {
                opts_v.push(18);
            }
            if i > 0 && seq[i - 1] == 0 && run >= 3 {
                opts_v.push(16);
            }
            let choice = if style == 2 {
                *opts_v.iter().filter(|&&o| o != 16).max().unwrap()
            } else {
                // prefer run codes
                if opts_v.len() > 1 && mix.chance(80) {
                    opts_v[1 + mix.below(opts_v.len() - 1)]
                } else {
                    0
                }
            };
            match choice {
                17 => {
                    let maxn = run.min(10);
                    let n = if style == 2 { maxn } else { mix.range(3, maxn) };
                    items.push((17, (n - 3) as u8));
                    i += n;
                    used_rle = true;
                }
                18 => {
                    let maxn = run.min(138);
                    let n = if style == 2 { maxn } else { mix.range(11, maxn) };
                    items.push((18, (n - 11) as u8));
                    i += n;
                    used_rle = true;
                }
                16 => {
                    let maxn = run.min(6);
                    let n = mix.range(3, maxn);
                    items.push((16, (n - 3) as u8));
                    if i < hlit && i + n > hlit {
                        feat.rep_cross_boundary += 1;
                    }
                    i += n;
                    feat.rep16_after_zero += 1;
                    used_rle = true;
                }
                _ => {
                    items.push((0, 0));
                    i += 1;
                }
            }
        } else {
            // non-zero: literal first, then 16 may repeat the previous
            let prev_same = i > 0 && seq[i - 1] == v;
            if prev_same && run >= 3 && (style == 2 || mix.chance(80)) {
                let maxn = run.min(6);
                let n = if style == 2 { maxn } else { mix.range(3, maxn) };
                items.push((16, (n - 3) as u8));
                if i < hlit && i + n > hlit {
                    feat.rep_cross_boundary += 1;
                }
                i += n;
                used_rle = true;
            } else {
                items.push((v, 0));
                i += 1;
            }
        }
    }
    if !used_rle {
        feat.no_rle_header += 1;
    }

    // code length alphabet code
    let mut cl_used = [false; 19];
    let mut cl_freq = [0u32; 19];
    for &(s, _) in &items {
        cl_used[s as usize] = true;
        cl_freq[s as usize] += 1;
    }
    let cl_len = build_random_code(
        &cl_used[..],
        7,
        19,
        mix,
        Some(&cl_freq[..]),
        &mut feat.spare_symbols,
    );
    let min_hclen = (0..19)
        .rev()
        .find(|&k| cl_len[CL_ORDER[k]] != 0)
        .unwrap_or(3)
        .max(3)
        + 1;
    let mut hclen = min_hclen;
    if hclen < 19 && mix.chance(opts.hclen_slack) {
        let extra = mix.range(1, 19 - hclen);
        hclen += extra;
        feat.hclen_slack += extra;
    }
    let cl_codes = canonical_codes(&cl_len);

    w.put((hlit - 257) as u32, 5);
    w.put((hdist - 1) as u32, 5);
    w.put((hclen - 4) as u32, 4);
    for k in 0..hclen {
        w.put(cl_len[CL_ORDER[k]] as u32, 3);
    }
    for &(s, extra) in &items {
        w.put_code(cl_codes[s as usize], cl_len[s as usize]);
        match s {
            16 => w.put(extra as u32, 2),
            17 => w.put(extra as u32, 3),
            18 => w.put(extra as u32, 7),
            _ => {}
        }
    }
    (lit_len, dist_len)
}

fn fixed_lengths() -> (Vec<u8>, Vec<u8>) {
    let mut l = vec![8u8; 288];
    for i in 144..256 {
        l[i] = 9;
    }
    for i in 256..280 {
        l[i] = 7;
    }
    (l, vec![5u8; 32])
}

fn emit_tokens(w: &mut BitW, toks: &[Tok], lit_len: &[u8], dist_len: &[u8]) {
    emit_tokens_poison(w, toks, lit_len, dist_len, None, false)
}

/// `poison`: a literal/length symbol (with 13 arbitrary bits after it) written before the
/// end-of-block symbol: used to build INVALID streams, e.g. a length symbol in a block whose
/// header declares no distance code at all
/// `alias`: when the distance table has a single code of length 1 (codeword `0`), write the
/// UNASSIGNED codeword `1` instead (an invalid stream that a lenient decoder may map to the
/// same symbol)
fn emit_tokens_poison(w: &mut BitW, toks: &[Tok], lit_len: &[u8], dist_len: &[u8], poison: Option<(usize, u32)>, alias: bool) {
    let single_dist = dist_len.iter().filter(|&&l| l != 0).count() == 1 && dist_len.iter().any(|&l| l == 1);
    let lit_codes = canonical_codes(lit_len);
    let dist_codes = canonical_codes(dist_len);
    for t in toks {
        match *t {
            Tok::Lit(b) => w.put_code(lit_codes[b as usize], lit_len[b as usize]),
            Tok::Ref {
                len,
                dist,
                irregular,
            } => {
                let (ls, lb, lv) = len_code(len, irregular);
                w.put_code(lit_codes[ls], lit_len[ls]);
                w.put(lv as u32, lb as u32);
                let (ds, db, dv) = dist_code(dist);
                if alias && single_dist {
                    w.put(1, 1);
                } else {
                    w.put_code(dist_codes[ds], dist_len[ds]);
                }
                w.put(dv as u32, db as u32);
            }
        }
    }
    if let Some((sym, bits)) = poison {
        if lit_len[sym] != 0 {
            w.put_code(lit_codes[sym], lit_len[sym]);
            w.put(bits, 13);
        }
    }
    w.put_code(lit_codes[256], lit_len[256]);
}

fn tok_plain_len(t: &Tok) -> usize {
    match t {
        Tok::Lit(_) => 1,
        Tok::Ref { len, .. } => *len as usize,
    }
}


pub struct SynOpts {
    /// allow shapes that zlib's inflate rejects / that are legal-but-unsupported
    pub exotic_pct: u32,
    pub trailing_garbage_pct: u32,
    pub max_plain: usize,
}

impl Default for SynOpts {
    fn default() -> Self {
        SynOpts {
            exotic_pct: 8,
            trailing_garbage_pct: 10,
            max_plain: 600_000,
        }
    }
}

/// serialise tokens into a DEFLATE stream using choices from DNA
pub fn encode_tokens(
    dna: &mut Dna,
    toks: &[Tok],
    plain: &[u8],
    opts: &SynOpts,
    mut feat: SynFeatures,
) -> SynStream {
    let seed = dna.u64();
    let mut mix = Mix::new(seed);
    let exotic = dna.chance(opts.exotic_pct);
    let mut zlib_ok = true;

    // block split: number of blocks and type mix
    let nblocks = match dna.weighted(&[40, 30, 20, 10]) {
        0 => 1,
        1 => dna.range(2, 3),
        2 => dna.range(3, 8),
        _ => dna.range(8, 30),
    };
    let type_w: [u32; 3] = match dna.weighted(&[30, 20, 25, 10, 15]) {
        0 => [10, 30, 60],
        1 => [0, 100, 0],
        2 => [0, 0, 100],
        3 => [100, 0, 0],
        _ => [33, 33, 34],
    };
    let empty_pct = [0u32, 0, 10, 40][dna.below(4)];
    let stored_pad_pct = [0u32, 0, 30, 100][dna.below(4)];
    let hopts = HeaderOpts {
        hlit_slack: [0u32, 10, 50][dna.below(3)],
        hdist_slack: [0u32, 10, 50][dna.below(3)],
        hclen_slack: [0u32, 10, 50][dna.below(3)],
        exotic,
        rle_style: dna.weighted(&[60, 15, 25]),
    };
    let final_pad_nonzero = dna.chance(25);
    let final_pad = if final_pad_nonzero { dna.u8() | 1 } else { 0 };
    let garbage = if dna.chance(opts.trailing_garbage_pct) {
        let n = dna.range(1, 40);
        dna.bytes(n)
    } else {
        vec![]
    };

    // split points over tokens
    let mut cuts: Vec<usize> = (0..nblocks.saturating_sub(1))
        .map(|_| mix.below(toks.len() + 1))
        .collect();
    cuts.sort();
    let mut bounds = vec![0usize];
    bounds.extend(cuts);
    bounds.push(toks.len());

    // insert empty blocks
    let mut segs: Vec<(usize, usize)> = Vec::new();
    for k in 0..bounds.len() - 1 {
        if mix.chance(empty_pct) {
            segs.push((bounds[k], bounds[k]));
        }
        segs.push((bounds[k], bounds[k + 1]));
    }
    if mix.chance(empty_pct) {
        segs.push((toks.len(), toks.len()));
    }

    let mut w = BitW::new();
    let mut ppos = 0usize; // plaintext position
    let nseg = segs.len();
    for (si, &(a, b)) in segs.iter().enumerate() {
        let last = si + 1 == nseg;
        let btoks = &toks[a..b];
        let plen: usize = btoks.iter().map(tok_plain_len).sum();
        let mut bt = [BType::Stored, BType::Fixed, BType::Dynamic][{
                let r = mix.below(100) as u32;
                if r < type_w[0] {
                    0
                } else if r < type_w[0] + type_w[1] {
                    1
                } else {
                    2
                }
            }];
        if bt == BType::Stored && plen > 65535 {
            bt = BType::Dynamic;
        }
        if btoks.len() > 65535 {
            feat.big_block = true;
        }
        if btoks.is_empty() {
            feat.empty_blocks += 1;
        }
        feat.blocks += 1;
        w.put(last as u32, 1);
        match bt {
            BType::Stored => {
                feat.stored += 1;
                w.put(0, 2);
                let pad = if mix.chance(stored_pad_pct) {
                    mix.u8() | 1
                } else {
                    0
                };
                if w.bit_offset() != 0 && (pad as u32 & ((1 << (8 - w.bit_offset())) - 1)) != 0 {
                    feat.nonzero_stored_padding = true;
                }
                w.pad(pad);
                w.put(plen as u32, 16);
                w.put(!(plen as u32) & 0xffff, 16);
                w.bytes(&plain[ppos..ppos + plen]);
            }
            BType::Fixed => {
                feat.fixed += 1;
                w.put(1, 2);
                let (ll, dl) = fixed_lengths();
                emit_tokens(&mut w, btoks, &ll, &dl);
            }
            BType::Dynamic => {
                feat.dynamic += 1;
                w.put(2, 2);
                let mut lit_used = [false; 288];
                let mut dist_used = [false; 32];
                let mut lit_freq = vec![0u32; 288];
                let mut dist_freq = vec![0u32; 32];
                lit_used[256] = true;
                lit_freq[256] = 1;
                for t in btoks {
                    match *t {
                        Tok::Lit(b) => {
                            lit_used[b as usize] = true;
                            lit_freq[b as usize] += 1;
                        }
                        Tok::Ref {
                            len,
                            dist,
                            irregular,
                        } => {
                                        let (ls, _, _) = len_code(len, irregular);
                            lit_used[ls] = true;
                            lit_freq[ls] += 1;
                            let (ds, _, _) = dist_code(dist);
                            dist_used[ds] = true;
                            dist_freq[ds] += 1;
                        }
                    }
                }
                // INVALID-by-construction variant: a length symbol used in a block without
                // references (so the header may declare a single or no distance code)
                let has_refs = dist_used.iter().any(|&b| b);
                let mut poison = None;
                if exotic && !has_refs && mix.chance(40) {
                    let sym = 257 + mix.below(29);
                    lit_used[sym] = true;
                    lit_freq[sym] = 1;
                    poison = Some((sym, mix.next() as u32 & 0x1fff));
                    feat.poisoned = true;
                    zlib_ok = false;
                }
                let (ll, dl) = emit_dynamic_header(
                    &mut w,
                    &lit_used,
                    &dist_used,
                    &lit_freq,
                    &dist_freq,
                    &hopts,
                    &mut mix,
                    &mut feat,
                    &mut zlib_ok,
                );
                // pad the length arrays for indexing
                let mut ll2 = ll.clone();
                ll2.resize(288, 0);
                let mut dl2 = dl.clone();
                dl2.resize(32, 0);
                let alias = feat.single_dist_code && has_refs && mix.chance(50);
                if alias {
                    feat.poisoned = true;
                    feat.single_dist_alias = true;
                }
                emit_tokens_poison(&mut w, btoks, &ll2, &dl2, poison, alias);
            }
        }
        ppos += plen;
    }
    if w.bit_offset() != 0 {
        let k = 8 - w.bit_offset();
        if (final_pad as u32) & ((1 << k) - 1) != 0 {
            feat.nonzero_padding = true;
        }
    }
    w.pad(final_pad);
    let stream_len = w.out.len();
    let mut bytes = w.out;
    feat.trailing_garbage = garbage.len();
    bytes.extend_from_slice(&garbage);

    feat.tokens = toks.len();
    for t in toks {
        if let Tok::Ref {
            len,
            dist,
            irregular,
        } = *t
        {
            feat.references += 1;
            let d = dist as usize;
            feat.max_dist = feat.max_dist.max(d);
            if len == 258 {
                feat.len258 += 1;
            }
            if irregular {
                feat.irregular258 += 1;
            }
        }
    }
    SynStream {
        bytes,
        stream_len,
        plain: plain.to_vec(),
        features: feat,
        zlib_should_accept: zlib_ok,
    }
}

/// greedy run-length coding of a combined code-length sequence (no regard for the
/// literal/distance boundary) and emission of a complete dynamic header
pub fn emit_header_from_lengths(w: &mut BitW, hlit: usize, hdist: usize, seq: &[u8], cl_seed: u64) {
    let mut items: Vec<(u8, u8)> = vec![];
    let mut i = 0;
    while i < seq.len() {
        let v = seq[i];
        let mut run = 1;
        while i + run < seq.len() && seq[i + run] == v {
            run += 1;
        }
        if v == 0 && run >= 11 {
            let n = run.min(138);
            items.push((18, (n - 11) as u8));
            i += n;
        } else if v == 0 && run >= 3 {
            let n = run.min(10);
            items.push((17, (n - 3) as u8));
            i += n;
        } else if v != 0 && i > 0 && seq[i - 1] == v && run >= 3 {
            let n = run.min(6);
            items.push((16, (n - 3) as u8));
            i += n;
        } else {
            items.push((v, 0));
            i += 1;
        }
    }
    let mut cl_used = [false; 19];
    for &(sy, _) in &items {
        cl_used[sy as usize] = true;
    }
    let mut mix = Mix::new(cl_seed);
    let mut spare = 0;
    let cl_len = build_random_code(&cl_used[..], 7, 19, &mut mix, None, &mut spare);
    let hclen = (0..19).rev().find(|&k| cl_len[CL_ORDER[k]] != 0).unwrap_or(3).max(3) + 1;
    let cl_codes = canonical_codes(&cl_len);
    w.put((hlit - 257) as u32, 5);
    w.put((hdist - 1) as u32, 5);
    w.put((hclen - 4) as u32, 4);
    for k in 0..hclen {
        w.put(cl_len[CL_ORDER[k]] as u32, 3);
    }
    for &(sy, extra) in &items {
        w.put_code(cl_codes[sy as usize], cl_len[sy as usize]);
        match sy {
            16 => w.put(extra as u32, 2),
            17 => w.put(extra as u32, 3),
            18 => w.put(extra as u32, 7),
            _ => {}
        }
    }
}

/// "split-shift" streams: consecutive dynamic blocks whose combined code-length list (and hence
/// the whole run-length coded header) is IDENTICAL while HLIT/HDIST split it differently:
/// block A: HLIT=H,   distance lengths [0, d1, d2, ..]  (distance symbol 0 unused)
/// block B: HLIT=H+1, distance lengths [d1, d2, ..]     (one more unused literal/length symbol)
/// The same bits mean different distance symbols in A and B.
fn gen_split_shift(dna: &mut Dna) -> SynStream {
    let mut feat = SynFeatures::default();
    feat.mode = "split-shift";
    let mut mix = Mix::new(dna.u64());
    let k = dna.range(2, 5);
    let nd = dna.range(2, 3);
    let slack = dna.range(0, 12);
    let h = 260 + slack;
    let mut lit_used = [false; 288];
    for i in 0..k {
        lit_used[b'a' as usize + i] = true;
    }
    lit_used[256] = true;
    for sy in 257..260 {
        lit_used[sy] = true;
    }
    let mut spare = 0;
    let lit_len_full = build_random_code(&lit_used[..], 15, 257, &mut mix, None, &mut spare);
    let mut lit_len = lit_len_full.clone();
    lit_len.truncate(h);
    let dlens: Vec<u8> = if nd == 2 { vec![1, 1] } else { let mut v = vec![1u8, 2, 2]; let r = mix.below(3); v.swap(0, r); v };
    let mut seq = lit_len.clone();
    seq.push(0);
    seq.extend_from_slice(&dlens);
    let cl_seed = mix.next();
    let order: Vec<bool> = match dna.below(4) {
        0 => vec![true, false],
        1 => vec![false, true],
        2 => vec![true, false, true],
        _ => vec![false, true, false, true],
    }; // true = block A
    let mut w = BitW::new();
    let mut plain: Vec<u8> = Vec::new();
    let mut all_toks = 0;
    let mut refs = 0;
    let nblocks = order.len();
    for (bi, &is_a) in order.iter().enumerate() {
        let ntok = dna.range(4, 40);
        let mut toks = vec![];
        for _ in 0..ntok {
            if plain.len() >= 5 && mix.chance(45) {
                let len = mix.range(3, 5) as u16;
                let code = mix.below(nd); // index into dlens
                // A: distance symbol = code + 1 (distance code+2); B: symbol = code (distance code+1)
                let dist = if is_a { code as u32 + 2 } else { code as u32 + 1 };
                let st = plain.len() - dist as usize;
                for i in 0..len as usize {
                    let b = plain[st + i];
                    plain.push(b);
                }
                toks.push(Tok::Ref { len, dist, irregular: false });
                refs += 1;
            } else {
                let b = b'a' + mix.below(k) as u8;
                plain.push(b);
                toks.push(Tok::Lit(b));
            }
        }
        all_toks += toks.len();
        w.put((bi + 1 == nblocks) as u32, 1);
        w.put(2, 2);
        let (hlit, hdist, ll, dl): (usize, usize, Vec<u8>, Vec<u8>) = if is_a {
            let mut d = vec![0u8];
            d.extend_from_slice(&dlens);
            (h, nd + 1, lit_len.clone(), d)
        } else {
            let mut l = lit_len.clone();
            l.push(0);
            (h + 1, nd, l, dlens.clone())
        };
        emit_header_from_lengths(&mut w, hlit, hdist, &seq, cl_seed);
        let mut ll2 = ll;
        ll2.resize(288, 0);
        let mut dl2 = dl;
        dl2.resize(32, 0);
        emit_tokens(&mut w, &toks, &ll2, &dl2);
        feat.blocks += 1;
        feat.dynamic += 1;
    }
    w.pad(0);
    feat.tokens = all_toks;
    feat.references = refs;
    feat.split_shift = true;
    let stream_len = w.out.len();
    SynStream { bytes: w.out, stream_len, plain, features: feat, zlib_should_accept: true }
}

/// full G-SYN generator
pub fn gen_syn(dna: &mut Dna, opts: &SynOpts) -> SynStream {
    if dna.chance(3) {
        return gen_split_shift(dna);
    }
    let mut feat = SynFeatures::default();
    let (toks, plain) = if dna.chance(45) {
        // parse mode over a G-PLAIN text
        let mut plain = crate::gen_plain::gen_plain(dna, &[25, 40, 28, 7]);
        plain.truncate(opts.max_plain);
        let ref_pct = [30u32, 70, 95, 100][dna.below(4)];
        let irr = [0u32, 0, 50, 100][dna.below(4)];
        let mut mix = Mix::new(dna.u64());
        let toks = parse_plain(&plain, &mut mix, ref_pct, irr);
        feat.mode = "parse";
        (toks, plain)
    } else {
        let (t, p) = gen_tokens_token_mode(dna, &mut feat, opts.max_plain);
        (t, p)
    };
    encode_tokens(dna, &toks, &plain, opts, feat)
}

/// decode tokens to plaintext (for tests / exhaustive builders)
pub fn tokens_to_plain(prefix: &[u8], toks: &[Tok]) -> Vec<u8> {
    let mut p = prefix.to_vec();
    for t in toks {
        match *t {
            Tok::Lit(b) => p.push(b),
            Tok::Ref { len, dist, .. } => {
                let s = p.len() - dist as usize;
                for i in 0..len as usize {
                    let b = p[s + i];
                    p.push(b);
                }
            }
        }
    }
    p
}

/// Deterministic builder used by the exhaustive (len, dist) enumeration: a stored prefix
/// followed by one block (fixed, or dynamic with a seeded random complete code) that holds
/// the given tokens.
pub fn build_prefix_plus_block(
    prefix: &[u8],
    toks: &[Tok],
    dynamic_seed: Option<u64>,
) -> (Vec<u8>, Vec<u8>) {
    let mut w = BitW::new();
    // stored prefix in chunks of <= 65535
    for chunk in prefix.chunks(65535) {
        w.put(0, 1);
        w.put(0, 2);
        w.pad(0);
        w.put(chunk.len() as u32, 16);
        w.put(!(chunk.len() as u32) & 0xffff, 16);
        w.bytes(chunk);
    }
    w.put(1, 1);
    match dynamic_seed {
        None => {
            w.put(1, 2);
            let (ll, dl) = fixed_lengths();
            emit_tokens(&mut w, toks, &ll, &dl);
        }
        Some(seed) => {
            w.put(2, 2);
            let mut mix = Mix::new(seed);
            let mut lit_used = [false; 288];
            let mut dist_used = [false; 32];
            let mut lit_freq = vec![0u32; 288];
            let mut dist_freq = vec![0u32; 32];
            lit_used[256] = true;
            for t in toks {
                match *t {
                    Tok::Lit(b) => {
                        lit_used[b as usize] = true;
                        lit_freq[b as usize] += 1;
                    }
                    Tok::Ref {
                        len,
                        dist,
                        irregular,
                    } => {
                                let (ls, _, _) = len_code(len, irregular);
                        lit_used[ls] = true;
                        lit_freq[ls] += 1;
                        let (ds, _, _) = dist_code(dist);
                        dist_used[ds] = true;
                        dist_freq[ds] += 1;
                    }
                }
            }
            let hopts = HeaderOpts {
                hlit_slack: 10,
                hdist_slack: 10,
                hclen_slack: 10,
                exotic: false,
                rle_style: 0,
            };
            let mut feat = SynFeatures::default();
            let mut zok = true;
            let (ll, dl) = emit_dynamic_header(
                &mut w, &lit_used, &dist_used, &lit_freq, &dist_freq, &hopts, &mut mix, &mut feat,
                &mut zok,
            );
            let mut ll2 = ll;
            ll2.resize(288, 0);
            let mut dl2 = dl;
            dl2.resize(32, 0);
            emit_tokens(&mut w, toks, &ll2, &dl2);
        }
    }
    w.pad(0);
    let plain = tokens_to_plain(prefix, toks);
    (w.out, plain)
}

/// INVALID or borderline dynamic blocks with degenerate code tables (no literal/length code at
/// all, only end-of-block, a single literal, no distance code ...) followed by arbitrary bits
pub fn degenerate_dynamic_block(dna: &mut Dna) -> Vec<u8> {
    let mut mix = Mix::new(dna.u64());
    let hlit = 257 + mix.below(30);
    let hdist = 1 + mix.below(32);
    let mut lit = vec![0u8; hlit];
    let mut dist = vec![0u8; hdist];
    match mix.below(8) {
        0 => {} // nothing at all
        1 => lit[256] = 1,
        2 => {
            lit[256] = 1;
            lit[mix.below(256)] = 1;
        }
        3 => lit[mix.below(256)] = 1, // no end-of-block
        4 => {
            lit[256] = 1;
            if hlit > 257 {
                lit[257 + mix.below(hlit - 257)] = 1; // EOB + one length symbol, no distances
            }
        }
        5 => {
            lit[256] = 2;
            lit[b'a' as usize] = 1;
            lit[257.min(hlit - 1)] = 2;
            dist[mix.below(hdist)] = 1; // single distance code
        }
        6 => {
            // everything length 15 / oversubscribed
            for x in lit.iter_mut().take(40) {
                *x = 15;
            }
        }
        _ => {
            lit[256] = 1;
            lit[0] = 1;
            for x in dist.iter_mut() {
                *x = 5;
            }
        }
    }
    let mut seq = lit.clone();
    seq.extend_from_slice(&dist);
    let mut w = BitW::new();
    w.put(mix.below(2) as u32, 1);
    w.put(2, 2);
    emit_header_from_lengths(&mut w, hlit, hdist, &seq, mix.next());
    let n = mix.range(0, 40);
    for _ in 0..n {
        w.put(mix.next() as u32 & 0xff, 8);
    }
    w.pad(0);
    w.out
}

/// Deterministic valid stream for the header-size enumeration: one dynamic block with exactly
/// (hlit, hdist) code-length entries and the requested minimum HCLEN slack, a few literals and
/// (when a distance code is available) references, followed by EOB. `variant` picks the code
/// lengths of the padding symbols (zero, i.e. trailing-zero slack, or real codes).
pub fn header_size_stream(hlit: usize, hdist: usize, variant: u64) -> Option<(Vec<u8>, Vec<u8>)> {
    let mut mix = Mix::new(0x5EED ^ ((hlit as u64) << 16) ^ ((hdist as u64) << 8) ^ variant);
    let mut lit_used = [false; 288];
    let mut dist_used = [false; 32];
    lit_used[b'a' as usize] = true;
    lit_used[b'b' as usize] = true;
    lit_used[256] = true;
    lit_used[257] = true; // length 3
    // the last symbol of each table gets a real code for variant 1 (no trailing zero), else stays 0
    let last_lit_real = variant % 2 == 1 && hlit <= 286;
    if last_lit_real {
        lit_used[hlit - 1] = true;
    }
    dist_used[0] = true;
    dist_used[1] = true;
    if variant % 2 == 1 && hdist <= 30 {
        dist_used[hdist - 1] = true;
    }
    if hdist < 2 {
        dist_used[1] = false;
    }
    let mut spare = 0;
    let mut ll = build_random_code(&lit_used[..], 15, 0, &mut mix, None, &mut spare);
    let n_dist = dist_used.iter().filter(|&&b| b).count();
    let mut dl = if n_dist >= 2 {
        build_random_code(&dist_used[..], 15, 0, &mut mix, None, &mut spare)
    } else {
        // a single distance code cannot be complete: leave the table empty-but-present is invalid
        // for this library, so use one code of length 1 only when hdist == 1 (expected Err)
        let mut v = vec![0u8; 32];
        v[0] = 1;
        v
    };
    // symbols beyond the requested table sizes must not have codes
    if (hlit..288).any(|i| ll[i] != 0) || (hdist..32).any(|i| dl[i] != 0) {
        return None;
    }
    ll.truncate(hlit);
    dl.truncate(hdist);
    let mut seq = ll.clone();
    seq.extend_from_slice(&dl);
    let mut w = BitW::new();
    w.put(1, 1);
    w.put(2, 2);
    emit_header_from_lengths(&mut w, hlit, hdist, &seq, mix.next());
    let mut toks = vec![Tok::Lit(b'a'), Tok::Lit(b'b'), Tok::Lit(b'a'), Tok::Lit(b'b'), Tok::Lit(b'a')];
    if n_dist >= 2 {
        toks.push(Tok::Ref { len: 3, dist: 1, irregular: false });
        toks.push(Tok::Ref { len: 3, dist: 2, irregular: false });
    }
    let mut ll2 = ll;
    ll2.resize(288, 0);
    let mut dl2 = dl;
    dl2.resize(32, 0);
    emit_tokens(&mut w, &toks, &ll2, &dl2);
    w.pad((variant >> 1) as u8);
    let plain = tokens_to_plain(&[], &toks);
    Some((w.out, plain))
}

/// "boundary run" blocks: single dynamic blocks whose code lengths are exactly the optimal ones
/// for the block's own symbol counts (all counts are powers of two, so every construction of an
/// optimal code gives the same lengths) and in which the last literal/length symbols and ALL
/// distance symbols share one length L. The greedy run-length coding of the header then has a
/// repeat item (16) that starts in the literal/length part and ends in the distance part, the
/// situation in which the code-length predictor's notion of "previous length" at the boundary
/// matters. Layout: length symbols 257..257+m-1 (length L, 2^(D-L) uses each), end of block
/// (length D), literals filling the rest of the code space, distance symbols 0..2^L-1 (c uses each).
/// `variant` selects (L, D, c), the literal byte values, a stored prefix and the token order.
/// Returns None when the variant does not exist.
pub fn boundary_run_stream(variant: u64) -> Option<(Vec<u8>, Vec<u8>, String)> {
    const SHAPES: [(u32, u32, u32); 10] =
        [(2, 3, 1), (2, 4, 2), (3, 4, 1), (3, 5, 1), (3, 5, 2), (4, 5, 1), (4, 6, 1), (4, 7, 1), (3, 4, 2), (2, 3, 2)];
    let shape = (variant % 10) as usize;
    let sub = variant / 10;
    let (l, d, c) = SHAPES[shape];
    // m * 2^(D-L) = c * 2^L references
    let refs = (c << l) as usize;
    if (refs as u32) % (1 << (d - l)) != 0 {
        return None;
    }
    let m = refs >> (d - l);
    if m < 2 || m > 29 {
        return None;
    }
    // code space in units of 2^-D: length symbols m * 2^(D-L), end of block 1, one literal of
    // length D (its sibling), the rest as literals of distinct lengths (binary digits)
    let full = 1u32 << d;
    let used = (m as u32) * (1 << (d - l)) + 2;
    if used > full {
        return None;
    }
    let mut rest = full - used;
    let mut lit_lengths: Vec<u8> = vec![d as u8];
    let mut bit = 0;
    while rest > 0 {
        if rest & 1 != 0 {
            // a digit of weight 2^bit units = one literal of length D - bit
            lit_lengths.push((d - bit) as u8);
        }
        rest >>= 1;
        bit += 1;
    }
    let mut mix = Mix::new(0xB0DA ^ sub.wrapping_mul(0x9E37_79B9_7F4A_7C15));
    // literal byte values: ascending distinct; sometimes adjacent to 256 so that no zero run
    // separates them from the end-of-block symbol
    let mut values: Vec<u8> = vec![];
    let high = sub % 3 == 1;
    while values.len() < lit_lengths.len() {
        let v = if high { 255 - values.len() as u8 } else { mix.u8() };
        if !values.contains(&v) {
            values.push(v);
        }
    }
    for i in (1..lit_lengths.len()).rev() {
        let j = mix.below(i + 1);
        lit_lengths.swap(i, j);
    }
    let mut lit_len = vec![0u8; 288];
    for (v, &ll) in values.iter().zip(lit_lengths.iter()) {
        lit_len[*v as usize] = ll;
    }
    lit_len[256] = d as u8;
    for k in 0..m {
        lit_len[257 + k] = l as u8;
    }
    let mut dist_len = vec![0u8; 32];
    for k in 0..(1usize << l) {
        dist_len[k] = l as u8;
    }
    // tokens: every literal 2^(D-len) times, then the references
    let stored_prefix = sub % 2 == 1 || l == 4;
    let mut prefix: Vec<u8> = vec![];
    if stored_prefix {
        for _ in 0..300 {
            prefix.push(mix.u8());
        }
    }
    let mut toks: Vec<Tok> = vec![];
    let mut lits: Vec<u8> = vec![];
    for (v, &ll) in values.iter().zip(lit_lengths.iter()) {
        for _ in 0..(1usize << (d - ll as u32)) {
            lits.push(*v);
        }
    }
    for i in (1..lits.len()).rev() {
        let j = mix.below(i + 1);
        lits.swap(i, j);
    }
    let mut plain = prefix.clone();
    for &b in &lits {
        toks.push(Tok::Lit(b));
        plain.push(b);
    }
    // pair length symbols and distance symbols round-robin; distances ascending so that the
    // history is long enough
    let mut pairs: Vec<(usize, usize)> = vec![];
    for r in 0..refs {
        pairs.push((r % m, r / (c as usize)));
    }
    pairs.sort_by_key(|p| p.1);
    for (ls, ds) in pairs {
        let len = LEN_BASE[ls];
        let base = DIST_BASE[ds] as usize;
        let span = 1usize << DIST_EXTRA[ds];
        let dist = base + mix.below(span);
        let dist = dist.min(plain.len());
        if dist < base || dist == 0 {
            return None;
        }
        let st = plain.len() - dist;
        for i in 0..len as usize {
            let b = plain[st + i];
            plain.push(b);
        }
        toks.push(Tok::Ref { len, dist: dist as u32, irregular: false });
    }
    let mut w = BitW::new();
    if stored_prefix {
        w.put(0, 1);
        w.put(0, 2);
        w.pad(0);
        w.bytes(&(prefix.len() as u16).to_le_bytes());
        w.bytes(&(!(prefix.len() as u16)).to_le_bytes());
        w.bytes(&prefix);
    }
    w.put(1, 1);
    w.put(2, 2);
    let hlit = 257 + m;
    let hdist = 1usize << l;
    let mut seq: Vec<u8> = lit_len[..hlit].to_vec();
    seq.extend_from_slice(&dist_len[..hdist]);
    emit_header_from_lengths(&mut w, hlit, hdist, &seq, sub ^ 0x51ED);
    emit_tokens(&mut w, &toks, &lit_len, &dist_len);
    w.pad(0);
    Some((w.out, plain, format!("boundary-run L={} D={} c={} m={} prefix={} high-literals={}", l, d, c, m, stored_prefix, high)))
}

/// "stored header phase" streams: a fixed-Huffman block whose length puts the following stored
/// block's 3 header bits at each of the 8 bit phases (one of them ends exactly on a byte
/// boundary, i.e. no padding bits at all), followed by a stored block whose LEN bytes alias its
/// payload: payload[0] == LEN & 0xff and LEN >> 8 >= 255 - (LEN & 0xff), so that a reader that is
/// one byte late still finds a consistent LEN/NLEN pair and enough data. The stored block is final
/// or followed by an empty fixed block. 8 phases x 6 lengths x (alias | no alias) x (final | not).
pub fn stored_phase_stream(variant: u64) -> Option<(Vec<u8>, Vec<u8>, String)> {
    const LENS: [(u8, u8); 6] = [(0xff, 0x03), (0xfe, 0x01), (0x80, 0x7f), (0xf0, 0x10), (0xff, 0x00), (0x00, 0xff)];
    if variant >= 8 * 6 * 2 * 2 * 4 {
        return None;
    }
    let phase = (variant % 8) as usize;
    let (lo, hi) = LENS[((variant / 8) % 6) as usize];
    let alias = (variant / 48) % 2 == 0;
    let is_final = (variant / 96) % 2 == 0;
    let seed = variant / 192;
    let mut mix = Mix::new(0x57AE ^ seed.wrapping_mul(0x9E37_79B9_7F4A_7C15) ^ variant);
    let mut w = BitW::new();
    let mut plain: Vec<u8> = vec![];
    let (ll, dl) = fixed_lengths();
    // fixed block: 3 + 8*n8 + 9*n9 + 7 bits; n9 = phase nine-bit literals shift the phase
    w.put(0, 1);
    w.put(1, 2);
    let mut toks: Vec<Tok> = vec![];
    for _ in 0..mix.range(1, 40) {
        toks.push(Tok::Lit(mix.below(144) as u8));
    }
    for _ in 0..phase {
        toks.push(Tok::Lit(144 + mix.below(112) as u8));
    }
    for t in &toks {
        if let Tok::Lit(b) = t {
            plain.push(*b);
        }
    }
    emit_tokens(&mut w, &toks, &ll, &dl);
    // stored block
    let len = ((hi as usize) << 8) | lo as usize;
    w.put(is_final as u32, 1);
    w.put(0, 2);
    let phase_bits = w.bit_offset();
    w.pad(if mix.chance(30) { mix.u8() } else { 0 });
    w.put(len as u32, 16);
    w.put(!(len as u32) & 0xffff, 16);
    let mut payload: Vec<u8> = (0..len).map(|_| mix.u8()).collect();
    if len > 0 {
        if alias {
            payload[0] = lo;
        } else if payload[0] == lo {
            payload[0] = lo.wrapping_add(1);
        }
    }
    w.bytes(&payload);
    plain.extend_from_slice(&payload);
    if !is_final {
        w.put(1, 1);
        w.put(1, 2);
        emit_tokens(&mut w, &[], &ll, &dl);
        w.pad(0);
    }
    Some((
        w.out,
        plain,
        format!("stored-phase header-ends-at-bit={} LEN={:#06x} alias={} final={}", phase_bits, len, alias, is_final),
    ))
}
