//! G-PLAIN: structured random plaintexts.

use crate::dna::{Dna, Mix};

const WORDS: &[&str] = &[
    "the", "of", "and", "a", "to", "in", "is", "you", "that", "it", "he", "was", "for", "on",
    "are", "as", "with", "his", "they", "I", "at", "be", "this", "have", "from", "or", "one",
    "had", "by", "word", "but", "not", "what", "all", "were", "we", "when", "your", "can",
    "said", "there", "use", "an", "each", "which", "she", "do", "how", "their", "if", "will",
    "up", "other", "about", "out", "many", "then", "them", "these", "so", "some", "her",
    "would", "make", "like", "him", "into", "time", "has", "look", "two", "more", "write",
    "go", "see", "number", "no", "way", "could", "people", "my", "than", "first", "water",
    "been", "call", "who", "oil", "its", "now", "find", "long", "down", "day", "did", "get",
    "come", "made", "may", "part", "compression", "deflate", "huffman", "<div class=\"",
    "</div>", "<td>", "</td>", "\r\n", "\n", "{\"id\":", ",\"value\":", "0x", "function",
    "return", "0000", "ffff", "    ", "\t\t", "=", ";", "(", ")", "http://", "www.", ".com",
];

#[derive(Clone, Copy, Debug, PartialEq, Eq)]
pub enum SizeClass {
    Tiny,   // 0..=64
    Small,  // 64..=2048
    Medium, // 2048..=40960
    Large,  // 40960..=307200
}

pub fn pick_size(dna: &mut Dna, weights: &[u32; 4]) -> usize {
    match dna.weighted(weights) {
        0 => dna.range(0, 64),
        1 => dna.range(64, 2048),
        2 => dna.range(2048, 40 * 1024),
        _ => dna.range(40 * 1024, 300 * 1024),
    }
}

/// default size distribution 20/35/30/15
pub const SIZE_DEFAULT: [u32; 4] = [20, 35, 30, 15];
/// biased to small inputs (cheap cases)
pub const SIZE_SMALL: [u32; 4] = [30, 50, 18, 2];
/// medium only (C06/C09: > 1 KiB)
pub const SIZE_MEDIUM: [u32; 4] = [0, 0, 100, 0];

fn append_segment(out: &mut Vec<u8>, target: usize, kind: usize, mix: &mut Mix) {
    let want = target.saturating_sub(out.len());
    if want == 0 {
        return;
    }
    // segment length: a fraction of what is left
    let seg = match mix.below(4) {
        0 => mix.range(1, want.min(16)),
        1 => mix.range(1, want.min(300)),
        2 => mix.range(1, want.min(5000)),
        _ => mix.range(1, want),
    };
    match kind {
        0 => {
            // random bytes
            for _ in 0..seg {
                out.push(mix.u8());
            }
        }
        1 => {
            // single byte run
            let b = mix.u8();
            out.extend(std::iter::repeat(b).take(seg));
        }
        2 => {
            // zipf-ish text
            let start = out.len();
            while out.len() - start < seg {
                let r = mix.below(WORDS.len() * WORDS.len());
                let idx = (r as f64).sqrt() as usize; // skewed to... uniform-ish over sqrt
                let w = WORDS[WORDS.len() - 1 - idx.min(WORDS.len() - 1)];
                out.extend_from_slice(w.as_bytes());
                if mix.chance(85) {
                    out.push(b' ');
                }
            }
            out.truncate(start + seg);
        }
        3 => {
            // copy of an earlier slice at a chosen distance
            if out.is_empty() {
                out.push(mix.u8());
                return;
            }
            let pos = out.len();
            let special: [usize; 14] = [
                1, 2, 3, 4, 257, 258, 259, 4093, 4096, 32506, 32767, 32768, 32769, pos,
            ];
            let dist = if mix.chance(60) {
                special[mix.below(special.len())]
            } else {
                mix.range(1, pos.min(40000))
            };
            let dist = dist.clamp(1, pos);
            let len = match mix.below(4) {
                0 => mix.range(3, 8),
                1 => mix.range(3, 260),
                2 => mix.range(250, 270),
                _ => seg,
            }
            .min(seg.max(3));
            for i in 0..len {
                let b = out[pos - dist + i];
                out.push(b);
            }
        }
        4 => {
            // counter
            let mut c = mix.u8();
            let step = mix.range(1, 3) as u8;
            for _ in 0..seg {
                out.push(c);
                c = c.wrapping_add(step);
            }
        }
        5 => {
            // period-k pattern
            let k = mix.range(1, 300);
            let pat: Vec<u8> = (0..k).map(|_| mix.u8()).collect();
            for i in 0..seg {
                out.push(pat[i % k]);
            }
        }
        6 => {
            // tiny alphabet
            let k = mix.range(2, 6);
            let alpha: Vec<u8> = (0..k).map(|_| mix.u8()).collect();
            for _ in 0..seg {
                out.push(alpha[mix.below(k)]);
            }
        }
        _ => {
            // mutated copy of earlier data (near matches)
            if out.len() < 8 {
                out.push(mix.u8());
                return;
            }
            let pos = out.len();
            let dist = mix.range(1, pos.min(33000));
            let len = seg.min(2000);
            for i in 0..len {
                let mut b = out[pos - dist + i];
                if mix.chance(3) {
                    b = mix.u8();
                }
                out.push(b);
            }
        }
    }
}

/// decode a plaintext from DNA with the given size class weights
pub fn gen_plain(dna: &mut Dna, size_weights: &[u32; 4]) -> Vec<u8> {
    let target = pick_size(dna, size_weights);
    gen_plain_sized(dna, target)
}

pub const FLAVOUR_NAMES: [&str; 10] =
    ["all-kinds", "text-like", "incompressible", "runs", "tiny-alphabet", "mixed-binary", "archive-like", "regime-change", "steep-statistics", "adjacent-hash-collisions"];

pub fn gen_plain_sized(dna: &mut Dna, target: usize) -> Vec<u8> {
    gen_plain_sized_labeled(dna, target).0
}

/// the plaintext and the name of its flavour (chosen from the DNA before anything else)
pub fn gen_plain_sized_labeled(dna: &mut Dna, target: usize) -> (Vec<u8>, &'static str) {
    let flavour = dna.weighted(&[25, 21, 13, 8, 8, 9, 8, 8, 5, 5]);
    (gen_plain_flavour(dna, target, flavour), FLAVOUR_NAMES[flavour])
}

fn gen_plain_flavour(dna: &mut Dna, target: usize, flavour: usize) -> Vec<u8> {
    let mut out = Vec::with_capacity(target);
    // flavour: which segment kinds are allowed; 0 -> all
    if flavour == 6 {
        return gen_archive_like(dna, target);
    }
    if flavour == 7 {
        return gen_regime_change(dna, target);
    }
    if flavour == 8 {
        return gen_steep_statistics(dna, target);
    }
    if flavour == 9 {
        return gen_hash_collisions(dna, target);
    }
    let kinds: &[usize] = match flavour {
        0 => &[0, 1, 2, 3, 4, 5, 6, 7],
        1 => &[2, 2, 2, 3, 7],    // text-like
        2 => &[0],                // incompressible
        3 => &[1, 1, 3, 5],       // runs / RLE
        4 => &[6, 3, 7],          // tiny alphabets
        _ => &[0, 2, 3, 3, 7, 7], // mixed binary
    };
    // DNA economy (DESIGN.md A.1): at most 8 DNA-described parts, each (kind, 64-bit
    // sub-seed); inside a part the expander picks the segment kinds of the flavour.
    let nparts = dna.range(1, 8);
    for part in 0..nparts {
        let part_target = target * (part + 1) / nparts;
        let first_kind = kinds[dna.below(kinds.len())];
        let seed = dna.u64();
        let mut mix = Mix::new(seed ^ (part as u64).wrapping_mul(0x9E37_79B9));
        let mut first = true;
        let mut guard = 0;
        while out.len() < part_target && guard < 100_000 {
            guard += 1;
            let k = if first { first_kind } else { kinds[mix.below(kinds.len())] };
            first = false;
            append_segment(&mut out, part_target, k, &mut mix);
        }
    }
    out.truncate(target);
    out
}

/// "archive-like": compressible records, then an incompressible blob (which real compressors
/// store), then text that repeats fragments of the blob (references into the stored region).
/// When the target allows it the blob starts beyond 32 KiB, i.e. outside the first window.
fn gen_archive_like(dna: &mut Dna, target: usize) -> Vec<u8> {
    let mut out = Vec::with_capacity(target);
    let mut mix = Mix::new(dna.u64());
    let (head, blob) = if target >= 70 * 1024 && dna.chance(75) {
        // blob big enough for whole stored blocks (a zlib block holds up to 16383 symbols),
        // starting beyond the first 32 KiB window
        let head = mix.range(33 * 1024, 40 * 1024);
        let blob = mix.range(18 * 1024, (target - head - 4096).min(48 * 1024).max(18 * 1024 + 1));
        (head, blob)
    } else if target > 44 * 1024 && dna.chance(70) {
        (mix.range(33 * 1024, target * 3 / 4), mix.range((target / 20).max(1), (target / 4).max(2)).min(20 * 1024))
    } else {
        (mix.range(target / 8, target / 2 + 1), mix.range((target / 20).max(1), (target / 4).max(2)).min(20 * 1024))
    };
    while out.len() < head.min(target) {
        let k = [2usize, 2, 3, 7][mix.below(4)];
        append_segment(&mut out, head.min(target), k, &mut mix);
    }
    let blob_start = out.len();
    for _ in 0..blob.min(target.saturating_sub(out.len())) {
        out.push(mix.u8());
    }
    let blob_end = out.len();
    while out.len() < target {
        if blob_end > blob_start + 8 && mix.chance(55) {
            // a fragment of the blob
            let l = mix.range(4, 64.min(blob_end - blob_start));
            let s = mix.range(blob_start, blob_end - l);
            for i in 0..l {
                if out.len() < target {
                    let b = out[s + i];
                    out.push(b);
                }
            }
        } else {
            let t = (out.len() + mix.range(4, 200)).min(target);
            append_segment(&mut out, t, 2, &mut mix);
        }
    }
    out.truncate(target);
    out
}

/// "regime change": a document whose statistics change part-way (diverse prose followed by a
/// highly repetitive appendix, or the reverse): what a compressor's match finder has to do in
/// the second part cannot be learned from the first.
fn gen_regime_change(dna: &mut Dna, target: usize) -> Vec<u8> {
    let mut out = Vec::with_capacity(target);
    let mut mix = Mix::new(dna.u64());
    let diverse: &[usize] = &[2, 2, 0, 7];
    let repetitive: &[usize] = &[5, 3, 6, 1, 3];
    let cut = if target > 8 { mix.range(target / 4, target * 3 / 4) } else { target };
    let (first, second) = if dna.chance(65) { (diverse, repetitive) } else { (repetitive, diverse) };
    let mut guard = 0;
    while out.len() < cut && guard < 200_000 {
        guard += 1;
        let k = first[mix.below(first.len())];
        append_segment(&mut out, cut, k, &mut mix);
    }
    while out.len() < target && guard < 400_000 {
        guard += 1;
        let k = second[mix.below(second.len())];
        append_segment(&mut out, target, k, &mut mix);
    }
    out.truncate(target);
    out
}

/// "steep statistics": units whose byte frequencies follow a Fibonacci-like (or geometric)
/// series, the distributions for which an optimal prefix code is as deep as it can be for the
/// number of symbols seen (a depth-d tree needs only about 1.62^d symbols). Length-limited code
/// construction (15 bits for literals, 7 for the code-length alphabet) only does real work here.
/// Units are either as large as the series allows or exactly one zlib block long (2^k - 1
/// symbols for memLevel 5..9), the rest of the unit being one dominant byte.
fn gen_steep_statistics(dna: &mut Dna, target: usize) -> Vec<u8> {
    let mut out = Vec::with_capacity(target);
    let mut mix = Mix::new(dna.u64());
    if target == 0 {
        return out;
    }
    let series = dna.weighted(&[70, 10, 20]); // 1,2,3,5.. | 1,1,2,3.. | 1,2,4,8..
    let shuffled = dna.chance(80);
    let block_aligned = dna.chance(45);
    let scale = if dna.chance(30) { dna.range(1, 3) } else { 1 };
    let unit_len = if block_aligned {
        let fits: Vec<usize> = [2047usize, 4095, 8191, 16383, 32767].iter().copied().filter(|&u| u <= target).collect();
        if fits.is_empty() {
            target
        } else {
            fits[dna.below(fits.len())]
        }
    } else {
        target
    };
    let budget = if block_aligned { unit_len * 6 / 10 } else { unit_len };
    let mut counts: Vec<usize> = if series == 1 { vec![1, 1] } else { vec![1, 2] };
    let mut sum: usize = counts.iter().sum();
    loop {
        let n = counts.len();
        let next = if series == 2 { counts[n - 1] * 2 } else { counts[n - 1] + counts[n - 2] };
        if (sum + next) * scale > budget.max(4) || n >= 40 {
            break;
        }
        counts.push(next);
        sum += next;
    }
    if counts.len() > 6 && dna.chance(35) {
        let drop = dna.range(1, 4.min(counts.len() - 4));
        counts.truncate(counts.len() - drop);
    }
    // which byte values carry the series (rarest first)
    let base = mix.u8();
    let stride = [1u8, 3, 7, 17][mix.below(4)];
    let dominant = base.wrapping_sub(stride);
    while out.len() < target {
        let start = out.len();
        for (i, &c) in counts.iter().enumerate() {
            let b = base.wrapping_add((i as u8).wrapping_mul(stride));
            for _ in 0..c * scale {
                out.push(b);
            }
        }
        if block_aligned {
            while out.len() - start < unit_len {
                out.push(dominant);
            }
        }
        if shuffled {
            let n = out.len() - start;
            for i in (1..n).rev() {
                let j = mix.below(i + 1);
                out.swap(start + i, start + j);
            }
        }
    }
    out.truncate(target);
    out
}

/// Plaintext made of units that are exactly one zlib block long for the given memLevel
/// ((1 << (memLevel + 6)) - 1 symbols when nothing is matched) and whose byte counts are an exact
/// Fibonacci series (1, 2, 3, 5, ...) next to one dominant byte: with the end-of-block symbol the
/// optimal code of such a block is a chain, one level per symbol, so blocks with more than 15
/// different bytes need zlib's length limiting.
pub fn gen_block_aligned_steep(dna: &mut Dna, mem_level: u32) -> Vec<u8> {
    let unit_len = (1usize << (mem_level + 6)) - 1;
    let mut mix = Mix::new(dna.u64());
    let scale = if dna.chance(25) { dna.range(1, 3) } else { 1 };
    let mut counts: Vec<usize> = vec![1, 2];
    let mut sum = 3usize;
    loop {
        let n = counts.len();
        let next = counts[n - 1] + counts[n - 2];
        if (sum + next) * scale > unit_len * 55 / 100 || n >= 30 {
            break;
        }
        counts.push(next);
        sum += next;
    }
    if counts.len() > 8 && dna.chance(25) {
        let drop = dna.range(1, 3);
        counts.truncate(counts.len() - drop);
    }
    let units = dna.range(1, 6);
    let base = mix.u8();
    let stride = [1u8, 3, 7, 17][mix.below(4)];
    let dominant = base.wrapping_sub(stride);
    let mut out = Vec::with_capacity(units * unit_len);
    for _ in 0..units {
        let start = out.len();
        for (i, &c) in counts.iter().enumerate() {
            let b = base.wrapping_add((i as u8).wrapping_mul(stride));
            for _ in 0..c * scale {
                out.push(b);
            }
        }
        while out.len() - start < unit_len {
            out.push(dominant);
        }
        for i in (1..unit_len).rev() {
            let j = mix.below(i + 1);
            out.swap(start + i, start + j);
        }
    }
    out
}

/// "adjacent hash collisions": text over a small vocabulary in which many words begin with
/// bytes whose hash window at position p and the DIFFERENT window at p+1 fall into the same
/// bucket of a compressor's match-finder hash (zlib's rolling 3-byte hash with shift 5 / 15
/// bits; the multiplicative 4-byte hashes of libdeflate and zlib-ng). Words repeat often, so the
/// chains of those buckets are long. Compressors and any model of them must then tell "same
/// bucket" from "same bytes" at adjacent positions, e.g. in a lazy look-ahead.
fn gen_hash_collisions(dna: &mut Dna, target: usize) -> Vec<u8> {
    let mut mix = Mix::new(dna.u64());
    let mut out = Vec::with_capacity(target);
    let printable = dna.chance(50);
    let short_words = dna.chance(60);
    let pick = |m: &mut Mix| -> u8 {
        if printable {
            b' ' + m.below(95) as u8
        } else {
            m.u8()
        }
    };
    let zlib_h = |b: &[u8]| -> u32 { (((b[0] as u32) << 10) ^ ((b[1] as u32) << 5) ^ b[2] as u32) & 0x7fff };
    let mul_h = |b: &[u8], k: u32| -> u32 { u32::from_le_bytes([b[0], b[1], b[2], b[3]]).wrapping_mul(k) >> 16 };
    let mut vocab: Vec<Vec<u8>> = vec![];
    let nwords = dna.range(6, 30);
    let mut guard = 0u32;
    while vocab.len() < nwords && guard < 3_000_000 {
        guard += 1;
        let kind = vocab.len() % 4;
        let w: Vec<u8> = (0..5).map(|_| pick(&mut mix)).collect();
        let hit = match kind {
            0 => zlib_h(&w[0..3]) == zlib_h(&w[1..4]) && w[0..3] != w[1..4],
            1 => mul_h(&w[0..4], 0x1E35A7BD) == mul_h(&w[1..5], 0x1E35A7BD) && w[0..4] != w[1..5],
            2 => mul_h(&w[0..4], 2654435761) == mul_h(&w[1..5], 2654435761) && w[0..4] != w[1..5],
            _ => true, // an ordinary word
        };
        if hit {
            let mut word = w.clone();
            let maxsuf = if short_words { 7 } else { 28 };
            for _ in 0..mix.range(0, maxsuf) {
                word.push(pick(&mut mix));
            }
            vocab.push(word);
            if kind != 3 && mix.chance(50) {
                // a word that contains only the SECOND window of the colliding pair
                let mut w2 = vec![pick(&mut mix)];
                w2.extend_from_slice(&w[1..]);
                for _ in 0..mix.range(1, maxsuf) {
                    w2.push(pick(&mut mix));
                }
                vocab.push(w2);
            }
        }
    }
    if vocab.is_empty() {
        vocab.push(b"fallback".to_vec());
    }
    while out.len() < target {
        let w = &vocab[mix.below(vocab.len())];
        // sometimes only a prefix of the word (matches of different lengths at the same start)
        let n = if mix.chance(15) { mix.range(3.min(w.len()), w.len()) } else { w.len() };
        out.extend_from_slice(&w[..n]);
        match mix.below(4) {
            0 | 1 => out.push(b' '),
            2 => out.push(pick(&mut mix)),
            _ => {}
        }
        if out.len() > 2000 && mix.below(400) == 0 {
            // a long repeat that is repeated again, shifted (references into the inside of
            // long matches)
            let b = mix.below(out.len() - 1500);
            let tmp = out[b..b + 900].to_vec();
            out.extend_from_slice(&tmp);
            let tmp2 = out[b + 77..b + 800].to_vec();
            out.extend_from_slice(&tmp2);
        }
    }
    out.truncate(target);
    out
}
