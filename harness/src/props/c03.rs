//! C03 — recovered plaintext and consumed length agree with a reference inflater

use super::common::*;
use super::PropDef;
use crate::dna::{fnv64, hex, Dna, Mix};
use crate::engine::*;
use crate::gen_comp::zlib_inflate_raw;
use crate::gen_stream::{gen_stream, MIX_DEFAULT};
use crate::gen_syn::{build_prefix_plus_block, Tok};
use serde_json::{json, Value};

pub static DEF: PropDef = PropDef {
    id: "C03",
    level: "exploration",
    rule: "inputs D as in C02, plus a deterministic family of 768 streams with a stored block at every bit phase behind a fixed-Huffman block, whose LEN bytes alias the payload (a reader one byte late still finds a consistent LEN/NLEN pair). Oracle: system zlib inflate (raw mode, 32 KiB window) run on the same bytes; \
whenever decompress_deflate_stream accepts D and zlib reaches Z_STREAM_END, plain_text == zlib output and \
compressed_size == zlib total_in; for streams produced by a real compressor from plaintext P, plain_text == P. \
Enumerated sub-space: every (length 3..258, distance 1..32768) pair, 258 in both codings, under the fixed code and \
under seeded random dynamic codes, compared at parser level with zlib; a parser-level disagreement is turned \
into a single-token witness stream and only reported if decompress_deflate_stream accepts the witness and disagrees. \
Non-trivial = both decoders accept and the plaintext is non-empty; distinct = hash of the consumed prefix.",
    assumptions: &[
        "system zlib (libz-sys) inflate is the reference decoder",
        "streams only one decoder accepts make no claim",
    ],
    worker,
    replay,
    exh: Some(exh),
    totality: false,
    aggregate: None,
};

const MAX_OUT: usize = 64 << 20;

pub fn check(data: &[u8], known_plain: Option<&[u8]>, ctx: &mut Ctx, labels: &[String]) -> Result<(), Failure> {
    ctx.eval();
    for l in labels {
        ctx.class(l);
    }
    let r = match lib_split(data, false) {
        Ok(Ok(s)) => s,
        Ok(Err(_)) => {
            ctx.class("preflate:Err");
            return Ok(());
        }
        Err(_) => {
            ctx.class("preflate:panic(->C05)");
            return Ok(());
        }
    };
    ctx.class("preflate:Ok");
    if let Some(p) = known_plain {
        if r.plain != p {
            return Err(Failure::new(
                "C03",
                "mismatch",
                "known-plaintext",
                format!(
                    "plain_text ({} bytes) differs from the plaintext the compressor was given ({} bytes)",
                    r.plain.len(),
                    p.len()
                ),
            ));
        }
        ctx.class("known-plaintext-compared");
    }
    match zlib_inflate_raw(data, MAX_OUT) {
        None => {
            ctx.class("zlib:rejects(no-claim)");
            Ok(())
        }
        Some(z) => {
            ctx.class("both-accept");
            if z.plain != r.plain {
                let first = z
                    .plain
                    .iter()
                    .zip(r.plain.iter())
                    .position(|(a, b)| a != b)
                    .unwrap_or(z.plain.len().min(r.plain.len()));
                return Err(Failure::new(
                    "C03",
                    "mismatch",
                    "zlib-plaintext",
                    format!(
                        "plain_text differs from zlib inflate: {} vs {} bytes, first difference at {}",
                        r.plain.len(),
                        z.plain.len(),
                        first
                    ),
                ));
            }
            if z.consumed != r.size {
                return Err(Failure::new(
                    "C03",
                    "mismatch",
                    "zlib-consumed",
                    format!("compressed_size {} but zlib consumed {}", r.size, z.consumed),
                ));
            }
            if !r.plain.is_empty() {
                ctx.nontrivial(fnv64(&data[..r.size.min(data.len())]));
            }
            Ok(())
        }
    }
}

fn eval_dna(dna_bytes: &[u8], ctx: &mut Ctx) -> Result<(), (Failure, Value)> {
    let mut dna = Dna::new(dna_bytes);
    let case = gen_stream(&mut dna, &MIX_DEFAULT);
    let doc = match &case.known_plain {
        Some(p) if case.source == "comp" => json!({"kind":"bytes","hex":hex(&case.bytes),"plain_hex":hex(p)}),
        _ => bytes_doc(&case.bytes),
    };
    ctx.set_inflight(&doc);
    let mut labels = case.labels.clone();
    labels.push(format!("source:{}", case.source));
    let kp = if case.source == "comp" {
        case.known_plain.as_deref()
    } else {
        None
    };
    let r = check(&case.bytes, kp, ctx, &labels);
    ctx.sample(|| sample_bytes(&case.desc, &case.bytes, json!({"source": case.source})));
    r.map_err(|f| (f, doc))
}

// --- enumerated (length, distance) space -------------------------------------------------
//
// index space: code_variant (0 = fixed, 1..=NDYN seeded dynamic) x distance 1..=32768;
// one stream per (variant, distance) holding all 257 length tokens (3..258 canonical + 258
// irregular) after a 32 KiB stored prefix.

pub const NDYN_QUICK: u64 = 2;
pub const NDYN_THOROUGH: u64 = 8;

fn prefix_32k() -> Vec<u8> {
    let mut m = Mix::new(0xC03);
    // low-entropy-free prefix: random bytes, so that every (len, dist) copy is distinctive
    (0..32768).map(|_| m.u8()).collect()
}

fn build_ld_stream(variant: u64, dist: u32, prefix: &[u8]) -> (Vec<u8>, Vec<u8>, Vec<Tok>) {
    let mut toks = Vec::with_capacity(2 * 257);
    let mut m = Mix::new(variant * 40000 + dist as u64);
    for len in 3..=258u16 {
        toks.push(Tok::Ref {
            len,
            dist,
            irregular: false,
        });
        // a literal between references keeps the copied data from degenerating
        toks.push(Tok::Lit(m.u8()));
    }
    toks.push(Tok::Ref {
        len: 258,
        dist,
        irregular: true,
    });
    let seed = if variant == 0 { None } else { Some(0xD1CE + variant) };
    let (bytes, plain) = build_prefix_plus_block(prefix, &toks, seed);
    (bytes, plain, toks)
}

/// witness: the single token after a stored prefix, through the public API
fn witness(len: u16, dist: u32, irregular: bool, prefix: &[u8]) -> Option<(Vec<u8>, Failure)> {
    let toks = vec![
        Tok::Ref {
            len,
            dist,
            irregular,
        },
        Tok::Lit(b'!'),
    ];
    for seed in [None, Some(7u64)] {
        let (bytes, _plain) = build_prefix_plus_block(prefix, &toks, seed);
        if let (Ok(Ok(r)), Some(z)) = (lib_split(&bytes, false), zlib_inflate_raw(&bytes, MAX_OUT)) {
            if r.plain != z.plain {
                return Some((
                    bytes,
                    Failure::new(
                        "C03",
                        "mismatch",
                        "zlib-plaintext",
                        format!("token (len {}, dist {}, irregular {}) decodes differently from zlib", len, dist, irregular),
                    ),
                ));
            }
            if r.size != z.consumed {
                return Some((
                    bytes,
                    Failure::new(
                        "C03",
                        "mismatch",
                        "zlib-consumed",
                        format!("token (len {}, dist {}): compressed_size {} vs zlib {}", len, dist, r.size, z.consumed),
                    ),
                ));
            }
        }
    }
    None
}

fn exh(ctx: &mut Ctx, sub: &str, start: u64, count: u64) {
    let _ = sub;
    let prefix = prefix_32k();
    let mut reported = 0;
    for idx in start..start + count {
        let variant = idx / 32768;
        let dist = (idx % 32768) as u32 + 1;
        if ctx.slow || idx == start || idx % 64 == 0 {
            ctx.set_inflight(&json!({"kind":"exh","sub":"lendist","index":idx,"block":(64 - idx % 64).min(start+count-idx)}));
        }
        let (bytes, plain, toks) = build_ld_stream(variant, dist, &prefix);
        if ctx.slow {
            ctx.set_inflight(&bytes_doc(&bytes));
        }
        ctx.evals(257);
        let z = zlib_inflate_raw(&bytes, MAX_OUT);
        let p = lib_parse(&bytes);
        // generator self-check (harness soundness): zlib must accept and agree with the model
        match &z {
            Some(z) if z.plain == plain && z.consumed == bytes.len() => {}
            _ => {
                ctx.discard("harness:zlib-disagrees-with-generator");
                continue;
            }
        }
        let z = z.unwrap();
        let bad = match p {
            Ok(Ok(s)) => s.plain_text != z.plain || s.consumed != z.consumed,
            _ => false, // parser rejects: no claim
        };
        ctx.class(if variant == 0 { "lendist:fixed-code" } else { "lendist:dynamic-code" });
        ctx.nontrivial(fnv64(&idx.to_le_bytes()));
        if bad && reported < 3 {
            // find the offending token(s) with single-token witnesses
            ctx.class("lendist:parser-level-disagreement");
            let mut found = false;
            for t in &toks {
                if let Tok::Ref { len, dist, irregular } = *t {
                    if let Some((wbytes, f)) = witness(len, dist, irregular, &prefix) {
                        if !ctx.is_known(&f) {
                            ctx.record_failure(&f, &bytes_doc(&wbytes));
                            reported += 1;
                        }
                        found = true;
                        break;
                    }
                }
            }
            if !found {
                ctx.discard("parser-level disagreement without an accepted witness");
            }
        }
    }
}

fn worker(ctx: &mut Ctx) {
    let (cases, ndyn) = match ctx.cfg.tier {
        Tier::Quick => (40_000u64, NDYN_QUICK),
        Tier::Thorough => (300_000u64, NDYN_THOROUGH),
    };
    let total = (1 + ndyn) * 32768;
    let (a, b) = shard_range(total, ctx.cfg.shard, ctx.cfg.nshards);
    exh(ctx, "lendist", a, b - a);
    ctx.exhaustive.push(json!({
        "subspace": format!("(length 3..258 + irregular 258) x distance 1..32768 under the fixed code and {} seeded dynamic codes", ndyn),
        "shard_range": [a, b], "of": total, "tokens_per_index": 257
    }));
    ctx.set_inflight(&json!({"kind":"between"}));

    // deterministic family: stored blocks at every bit phase whose LEN bytes alias the payload
    for v in 0..768u64 {
        if v % ctx.cfg.nshards as u64 != ctx.cfg.shard as u64 {
            continue;
        }
        if let Some((stream, plain, _desc)) = crate::gen_syn::stored_phase_stream(v) {
            let doc = bytes_doc(&stream);
            ctx.set_inflight(&doc);
            let labels = vec!["syn:stored-phase(LEN aliases payload)".to_string()];
            if let Err(f) = check(&stream, Some(&plain), ctx, &labels) {
                if !ctx.is_known(&f) {
                    ctx.record_failure(&f, &doc);
                }
                break;
            }
        }
    }
    let run = DnaRun {
        cases: ctx.cfg.share(cases),
        max_dna: 700,
        shrink_iters: 300,
        stream: 0,
    };
    if let Some((f, doc)) = run_dna(ctx, &run, eval_dna) {
        // the known-plaintext oracle is tied to the unmodified stream; minimise only
        // failures of the zlib oracle
        if f.sig.contains("known-plaintext") {
            ctx.record_failure(&f, &doc);
        } else {
            minimise_and_record(ctx, f, doc, 3000, |cand, _doc, ctx| check(cand, None, ctx, &[]));
        }
    }
}

fn replay(doc: &Value, ctx: &mut Ctx) -> Result<(), Failure> {
    let data = doc_bytes(doc, "hex").ok_or_else(|| {
        Failure::new("C03", "harness", "bad-replay-doc", "replay document has no hex field".into())
    })?;
    let plain = doc_bytes(doc, "plain_hex");
    check(&data, plain.as_deref(), ctx, &[])
}
