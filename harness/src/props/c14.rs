//! C14 — public functions are deterministic and safe to call concurrently

use super::common::*;
use super::PropDef;
use crate::dna::{fnv64, hex, unhex, Dna};
use crate::engine::*;
use crate::gen_file::gen_file_opts;
use crate::gen_stream::{gen_stream, StreamMix};
use serde_json::{json, Value};
use std::sync::{Arc, Barrier};

pub static DEF: PropDef = PropDef {
    id: "C14",
    level: "exploration",
    rule: "cases: a generated pool of inputs (valid and invalid streams, files with and without embedded streams) and \
generated call histories over it. (1) history independence: a sequence of ~40 calls of expand_zlib_chunks / \
recreated_zlib_chunks / WrapperCompressZip + WrapperDecompressZip / decompress_deflate_stream(verify in {false,true}) / recompress_deflate_stream (on the stream's own split or, for one stream in three, on corrections written through the analysis hook under foreign hash parameters: shift 4..6, mask up to 0xffff) / compress_zstd / decompress_zstd, each result \
digest compared with the first-seen result for that (function, input); input slices are passed at varying addresses modulo 8; (2) concurrency: 2..16 threads released by a \
barrier run generated per-thread sequences over the shared (Arc) pool, every result compared with the sequential model; \
(4) soak: three streams through recompress 70 000 times each (interleaved, plus decompress(verify=true) every 16th round) per worker process, every result equal to the first; after the history and after the threads a probe panic checks that the process-wide panic hook is still the caller's (no public function may change global state); (3) cross-process: a child process recomputes all digests of the pool (fresh address space, fresh RandomState) and must \
agree. Non-trivial = a history in which an accepted input is evaluated at least twice with different predecessors or on \
at least 2 threads; distinct = hash of (pool, history).",
    assumptions: &[
        "thread interleavings are the operating system's: sampled, not enumerated",
        "digests cover result bytes and error codes (not error message text)",
    ],
    worker,
    replay,
    exh: None,
    // a call that hangs or aborts although the same call returned before is not "byte-identical"
    totality: true,
    aggregate: None,
};

const MIX_C14: StreamMix = StreamMix {
    comp: 50,
    syn: 25,
    mutated: 20,
    noise: 5,
    sizes: [30, 60, 10, 0],
};

#[derive(Clone, Debug)]
pub struct Pool {
    pub streams: Vec<Vec<u8>>,
    pub files: Vec<Vec<u8>>,
}

/// operation kinds: 0 decompress(verify=false) 1 decompress(verify=true) 2 recompress of a
/// split of the stream (its own, or for one stream in three one written under foreign parameters) 3 expand 4 recreate of the file's own container 5 compress_zstd
/// 6 decompress_zstd(compress_zstd) 7 WrapperCompressZip + WrapperDecompressZip (C ABI round trip)
pub type Op = (u8, u8); // (kind, input index)

fn digest_split(r: Result<Result<Split, LibErr>, Caught>) -> String {
    match r {
        Ok(Ok(s)) => format!("Ok:{:016x}:{:016x}:{}", fnv64(&s.plain), fnv64(&s.corr), s.size),
        Ok(Err(e)) => format!("Err:{}", e.code),
        Err(c) => format!("panic:{}", c.site()),
    }
}

fn digest_bytes(r: Result<Result<Vec<u8>, LibErr>, Caught>) -> String {
    match r {
        Ok(Ok(v)) => format!("Ok:{}:{:016x}", v.len(), fnv64(&v)),
        Ok(Err(e)) => format!("Err:{}", e.code),
        Err(c) => format!("panic:{}", c.site()),
    }
}

/// derived inputs (computed once, sequentially): splits for recompress, containers for recreate
pub struct Derived {
    splits: Vec<Option<Split>>,
    containers: Vec<Option<Vec<u8>>>,
}

/// For one stream in three (chosen by the stream's hash, so a replay needs nothing extra) the
/// split handed to recompress is NOT the one decompress_deflate_stream returns but one made
/// through the analysis hook under foreign parameters (zlib-style rolling hash with shift 4..6 and
/// mask up to 0xffff, values the estimator never picks but the correction format can carry):
/// recompress_deflate_stream is a public function of (plaintext, corrections), whoever wrote them.
fn foreign_split(stream: &[u8]) -> Option<Split> {
    use preflate_rs::verif_hooks as hooks;
    let h = fnv64(stream);
    if h % 3 != 0 {
        return None;
    }
    let mut v = match guard(|| hooks::estimate(stream)) {
        Ok(Ok(v)) if v.len() == hooks::PARAM_LEN && v[hooks::P_HASH_ALGORITHM] != 0 => v,
        _ => {
            let mut v = vec![0u32; hooks::PARAM_LEN];
            v[hooks::P_ZLIB_COMPATIBLE] = 1;
            v[hooks::P_WINDOW_BITS] = 15;
            v[hooks::P_MAX_TOKEN_COUNT] = 16383;
            v[hooks::P_MAX_DIST_3_MATCHES] = 4096;
            v[hooks::P_GOOD_LENGTH] = 8;
            v[hooks::P_MAX_LAZY] = 16;
            v[hooks::P_NICE_LENGTH] = 128;
            v[hooks::P_MAX_CHAIN] = 128;
            v[hooks::P_MIN_LEN] = 3;
            v
        }
    };
    v[hooks::P_HASH_ALGORITHM] = 1;
    v[hooks::P_HASH_SHIFT] = [5u32, 6, 4, 6][((h >> 8) % 4) as usize];
    v[hooks::P_HASH_MASK] = [0xffffu32, 0x7fff, 0xffff, 0x3fff][((h >> 12) % 4) as usize];
    match guard(|| hooks::roundtrip_with_params(stream, &v)) {
        Ok(Some(Ok(r))) => Some(Split { plain: r.plain_text, corr: r.corrections, size: r.consumed }),
        _ => None,
    }
}

fn derive(pool: &Pool) -> Derived {
    Derived {
        splits: pool
            .streams
            .iter()
            .map(|s| foreign_split(s).or_else(|| lib_split(s, false).ok().and_then(|r| r.ok())))
            .collect(),
        containers: pool.files.iter().map(|f| lib_expand(f).ok().and_then(|r| r.ok())).collect(),
    }
}

thread_local! {
    /// byte offset (0..7) at which the next call's input slice starts inside a scratch buffer:
    /// the result must not depend on where the caller's bytes live in memory
    static ALIGN: std::cell::Cell<usize> = std::cell::Cell::new(0);
}

/// copy `data` to an address that is `ALIGN` bytes past an 8-byte boundary
fn realigned<R>(data: &[u8], f: impl FnOnce(&[u8]) -> R) -> R {
    let a = ALIGN.with(|c| c.get()) % 8;
    if a == 0 || data.len() > (4 << 20) {
        return f(data);
    }
    let mut buf: Vec<u64> = vec![0u64; (data.len() + a) / 8 + 2];
    let bytes: &mut [u8] = unsafe { std::slice::from_raw_parts_mut(buf.as_mut_ptr() as *mut u8, buf.len() * 8) };
    bytes[a..a + data.len()].copy_from_slice(data);
    f(&bytes[a..a + data.len()])
}

fn run_op(pool: &Pool, der: &Derived, op: Op) -> String {
    let (kind, idx) = (op.0, op.1 as usize);
    match kind {
        0 => realigned(&pool.streams[idx % pool.streams.len()], |s| digest_split(lib_split(s, false))),
        1 => realigned(&pool.streams[idx % pool.streams.len()], |s| digest_split(lib_split(s, true))),
        2 => match &der.splits[idx % pool.streams.len()] {
            Some(s) => digest_bytes(lib_recompress(&s.plain, &s.corr)),
            None => "n/a".into(),
        },
        3 => realigned(&pool.files[idx % pool.files.len()], |f| digest_bytes(lib_expand(f))),
        4 => match &der.containers[idx % pool.files.len()] {
            Some(e) => digest_bytes(lib_recreate(e)),
            None => "n/a".into(),
        },
        5 => realigned(&pool.files[idx % pool.files.len()], |f| {
            digest_bytes(guard(|| preflate_rs::compress_zstd(f, 0).map_err(|e| err_info(&e))))
        }),
        7 => cabi_roundtrip(&pool.files[idx % pool.files.len()]),
        _ => {
            let f = &pool.files[idx % pool.files.len()];
            digest_bytes(guard(|| {
                let c = preflate_rs::compress_zstd(f, 0).map_err(|e| err_info(&e))?;
                preflate_rs::decompress_zstd(&c, 64 << 20).map_err(|e| err_info(&e))
            }))
        }
    }
}

/// the two extern "C" entry points, compress then decompress, with ample buffers
fn cabi_roundtrip(f: &[u8]) -> String {
    if f.len() > (8 << 20) {
        return "n/a".into();
    }
    let cap1 = f.len() + f.len() / 2 + 65_536;
    let mut buf1 = vec![0u8; cap1];
    let mut n1: u64 = 0;
    let s1 = unsafe { preflate_rs::WrapperCompressZip(f.as_ptr(), f.len() as u64, buf1.as_mut_ptr(), cap1 as u64, &mut n1) };
    if s1 != 0 || n1 as usize > cap1 {
        return format!("compress-status:{}", s1);
    }
    let cap2 = f.len() + 16;
    let mut buf2 = vec![0u8; cap2];
    let mut n2: u64 = 0;
    let s2 = unsafe { preflate_rs::WrapperDecompressZip(buf1.as_ptr(), n1, buf2.as_mut_ptr(), cap2 as u64, &mut n2) };
    if s2 != 0 || n2 as usize > cap2 {
        return format!("Ok:{}:{:016x}:decompress-status:{}", n1, fnv64(&buf1[..n1 as usize]), s2);
    }
    format!("Ok:{}:{:016x}:{}:{:016x}", n1, fnv64(&buf1[..n1 as usize]), n2, fnv64(&buf2[..n2 as usize]))
}

fn hook_check(after: &str) -> Result<(), Failure> {
    if panic_hook_intact() {
        return Ok(());
    }
    // put ours back so that later cases are judged normally
    install_panic_hook();
    Err(Failure::new(
        "C14",
        "global-state",
        "panic-hook-replaced",
        format!("after {} the process-wide panic hook is no longer the one the caller had installed: a public function changed global state", after),
    ))
}

fn all_ops(pool: &Pool) -> Vec<Op> {
    let mut v = vec![];
    for i in 0..pool.streams.len() {
        for k in 0..3u8 {
            v.push((k, i as u8));
        }
    }
    for i in 0..pool.files.len() {
        for k in 3..8u8 {
            v.push((k, i as u8));
        }
    }
    v
}

pub fn pool_doc(pool: &Pool) -> Value {
    json!({"streams": pool.streams.iter().map(|s| hex(s)).collect::<Vec<_>>(),
           "files": pool.files.iter().map(|s| hex(s)).collect::<Vec<_>>()})
}

pub fn pool_from_doc(v: &Value) -> Option<Pool> {
    let g = |k: &str| -> Option<Vec<Vec<u8>>> {
        v.get(k)?.as_array()?.iter().map(|x| x.as_str().and_then(unhex)).collect()
    };
    Some(Pool {
        streams: g("streams")?,
        files: g("files")?,
    })
}

/// entry point of the child process: prints one digest per (function, input)
pub fn digest_main(path: &str) {
    install_panic_hook();
    let raw = std::fs::read(path).expect("read pool");
    let v: Value = serde_json::from_slice(&raw).expect("json");
    let pool = pool_from_doc(&v).expect("pool");
    let der = derive(&pool);
    let mut out = vec![];
    for op in all_ops(&pool) {
        out.push(format!("{}.{}={}", op.0, op.1, run_op(&pool, &der, op)));
    }
    let outp = format!("{}.out", path);
    std::fs::write(outp, out.join("\n")).unwrap();
}

pub struct Plan {
    pub history: Vec<Op>,
    pub threads: Vec<Vec<Op>>,
    pub child: bool,
}

fn plan_doc(pool: &Pool, plan: &Plan) -> Value {
    json!({"kind":"c14","pool":pool_doc(pool),"history":plan.history,"threads":plan.threads,"child":plan.child})
}

fn mismatch(kind: &str, op: Op, want: &str, got: &str, extra: &str) -> Failure {
    let fname = ["decompress(verify=false)", "decompress(verify=true)", "recompress", "expand", "recreate", "compress_zstd", "zstd-roundtrip", "c-abi-roundtrip"][op.0.min(7) as usize];
    Failure::new(
        "C14",
        kind,
        fname,
        format!("{} on input {}: first-seen result {} but {} gave {}", fname, op.1, want, extra, got),
    )
}

pub fn check(pool: &Pool, plan: &Plan, ctx: &mut Ctx) -> Result<(), Failure> {
    ctx.eval();
    if pool.streams.is_empty() || pool.files.is_empty() {
        return Ok(());
    }
    let der = derive(pool);
    // sequential model: first-seen results in canonical order
    let ops = all_ops(pool);
    let mut model = std::collections::BTreeMap::new();
    let t_model = std::time::Instant::now();
    for &op in &ops {
        model.insert(op, run_op(pool, &der, op));
    }
    // expensive pools (a 16 MiB file, a stream with very long hash chains) get a short plan so that
    // the fixed work of a run stays bounded
    let expensive = t_model.elapsed().as_millis() > 1500;
    let short_plan;
    let plan = if expensive {
        ctx.class("expensive-pool:short-plan");
        short_plan = Plan {
            history: plan.history.iter().take(8).cloned().collect(),
            threads: plan.threads.iter().take(4).map(|t| t.iter().take(3).cloned().collect()).collect(),
            child: plan.child,
        };
        &short_plan
    } else {
        plan
    };
    let norm = |op: Op| -> Op {
        if op.0 < 3 {
            (op.0, (op.1 as usize % pool.streams.len()) as u8)
        } else {
            (op.0.min(7), (op.1 as usize % pool.files.len()) as u8)
        }
    };
    let accepted = |op: Op| model.get(&op).map(|d| d.starts_with("Ok")).unwrap_or(false);
    // (1) history independence
    let mut seen = std::collections::BTreeMap::new();
    let mut nontrivial = false;
    let mut prev: Option<Op> = None;
    for (hi, &raw) in plan.history.iter().enumerate() {
        if t_model.elapsed().as_secs() > 20 {
            // pathological cost: the rest of this history is skipped (inconclusive, never a verdict)
            ctx.class("time-capped-history");
            break;
        }
        let op = norm(raw);
        ALIGN.with(|c| c.set((hi * 3 + raw.1 as usize) % 8));
        let got = run_op(pool, &der, op);
        ALIGN.with(|c| c.set(0));
        let want = &model[&op];
        if &got != want {
            return Err(mismatch("history-dependence", op, want, &got, &format!("a later call (after {:?})", prev)));
        }
        let e = seen.entry(op).or_insert_with(Vec::new);
        if !e.contains(&prev) {
            e.push(prev);
        }
        if e.len() >= 2 && accepted(op) {
            nontrivial = true;
        }
        prev = Some(op);
    }
    ctx.class_n("history-calls", plan.history.len() as u64);
    hook_check("a sequential call history")?;
    // (2) concurrency
    if !plan.threads.is_empty() && t_model.elapsed().as_secs() <= 20 {
        let pool_a = Arc::new(pool.clone());
        let der_a = Arc::new(der);
        let barrier = Arc::new(Barrier::new(plan.threads.len()));
        let mut handles = vec![];
        for seq in plan.threads.iter() {
            let p = pool_a.clone();
            let d = der_a.clone();
            let b = barrier.clone();
            let seq: Vec<Op> = seq.iter().map(|&o| norm(o)).collect();
            handles.push(std::thread::spawn(move || {
                b.wait();
                seq.iter()
                    .enumerate()
                    .map(|(i, &op)| {
                        ALIGN.with(|c| c.set((i * 5 + op.1 as usize + 1) % 8));
                        let r = run_op(&p, &d, op);
                        ALIGN.with(|c| c.set(0));
                        (op, r)
                    })
                    .collect::<Vec<_>>()
            }));
        }
        let mut per_op_threads = std::collections::BTreeMap::new();
        for (ti, h) in handles.into_iter().enumerate() {
            let res = match h.join() {
                Ok(r) => r,
                Err(_) => {
                    return Err(Failure::new("C14", "thread-panic", "join", format!("thread {} panicked outside catch_unwind", ti)));
                }
            };
            for (op, got) in res {
                let want = &model[&op];
                if &got != want {
                    return Err(mismatch("concurrency", op, want, &got, &format!("thread {} of {}", ti, plan.threads.len())));
                }
                let e = per_op_threads.entry(op).or_insert_with(std::collections::BTreeSet::new);
                e.insert(ti);
                if e.len() >= 2 && accepted(op) {
                    nontrivial = true;
                }
            }
        }
        hook_check(&format!("concurrent calls on {} threads", plan.threads.len()))?;
        ctx.class(&format!("threads:{}", plan.threads.len()));
        ctx.class_n("concurrent-calls", plan.threads.iter().map(|t| t.len() as u64).sum());
    }
    // (3) cross-process
    if plan.child && t_model.elapsed().as_secs() <= 30 {
        let dir = out_root().join("work").join("C14");
        let _ = std::fs::create_dir_all(&dir);
        let path = dir.join(format!("pool_{}_{}.json", std::process::id(), ctx.cfg.shard));
        std::fs::write(&path, pool_doc(pool).to_string()).unwrap();
        let st = std::process::Command::new(std::env::current_exe().unwrap())
            .args(["digest", &path.to_string_lossy()])
            .stdin(std::process::Stdio::null())
            .stdout(std::process::Stdio::null())
            .stderr(std::process::Stdio::null())
            .status();
        let outp = format!("{}.out", path.to_string_lossy());
        let text = std::fs::read_to_string(&outp).unwrap_or_default();
        let _ = std::fs::remove_file(&path);
        let _ = std::fs::remove_file(&outp);
        match st {
            Ok(s) if s.success() => {
                let mut n = 0;
                for line in text.lines() {
                    if let Some((k, got)) = line.split_once('=') {
                        if let Some((a, b)) = k.split_once('.') {
                            let op: Op = (a.parse().unwrap_or(9), b.parse().unwrap_or(0));
                            if let Some(want) = model.get(&op) {
                                n += 1;
                                if want != got {
                                    return Err(mismatch("cross-process", op, want, got, "a second process"));
                                }
                            }
                        }
                    }
                }
                if n != model.len() {
                    ctx.discard("harness: child process returned an incomplete digest list");
                } else {
                    ctx.class("cross-process-compared");
                }
            }
            _ => ctx.discard("harness: child process failed"),
        }
    }
    if nontrivial {
        let mut key = pool_doc(pool).to_string().into_bytes();
        key.extend_from_slice(format!("{:?}{:?}", plan.history, plan.threads).as_bytes());
        ctx.nontrivial(fnv64(&key));
    }
    for (op, d) in model.iter() {
        let fname = ["decompress0", "decompress1", "recompress", "expand", "recreate", "compress_zstd", "zstd-roundtrip", "c-abi-roundtrip"][op.0.min(7) as usize];
        ctx.class(&format!("model:{}:{}", fname, d.split(':').next().unwrap_or("")));
    }
    Ok(())
}

fn gen_ops(dna: &mut Dna, n: usize, hot: Op) -> Vec<Op> {
    (0..n)
        .map(|_| {
            if dna.chance(35) {
                hot
            } else {
                (dna.below(8) as u8, dna.below(8) as u8)
            }
        })
        .collect()
}

fn eval_dna(dna_bytes: &[u8], ctx: &mut Ctx) -> Result<(), (Failure, Value)> {
    let mut dna = Dna::new(dna_bytes);
    // plan first (fixed DNA budget)
    let plan_bytes = dna.bytes(260);
    let big_file = dna.chance(1);
    let big_seed = dna.u32();
    let ns = dna.range(1, 3);
    let nf = dna.range(1, 2);
    let mut pool = Pool { streams: vec![], files: vec![] };
    for _ in 0..ns {
        pool.streams.push(gen_stream(&mut dna, &MIX_C14).bytes);
    }
    for _ in 0..nf {
        pool.files.push(gen_file_opts(&mut dna, true).bytes);
    }
    if big_file {
        // a file whose expanded form exceeds 16 MiB (a stream of one repeated byte)
        let n = (16 << 20) + 4096 + (big_seed as usize % (1 << 20));
        let plain = vec![(big_seed >> 8) as u8; n];
        let stream = crate::gen_comp::zlib_deflate_raw(&plain, &crate::gen_comp::ZCfg::simple(6)).unwrap();
        let mut f = vec![0x78, 0x9c];
        f.extend_from_slice(&stream);
        f.extend_from_slice(&crate::gen_comp::adler32(&plain).to_be_bytes());
        pool.files.push(f);
        ctx.class("pool:file-expanding-beyond-16MiB");
    }
    let mut pd = Dna::new(&plan_bytes);
    let hot: Op = (pd.below(8) as u8, pd.below(4) as u8);
    let hlen = pd.range(10, 40);
    let history = gen_ops(&mut pd, hlen, hot);
    let nthreads = [0usize, 2, 2, 3, 4, 8, 16][pd.below(7)];
    let threads: Vec<Vec<Op>> = (0..nthreads)
        .map(|_| {
            let n = pd.range(3, 10);
            gen_ops(&mut pd, n, hot)
        })
        .collect();
    let plan = Plan { history, threads, child: pd.chance(25) };
    let doc = plan_doc(&pool, &plan);
    ctx.set_inflight(&doc);
    let t0 = std::time::Instant::now();
    let r = check(&pool, &plan, ctx);
    let ms = t0.elapsed().as_millis() as u64;
    if ctx.counting && ms > ctx.extra.get("slowest_case_ms").and_then(|v| v.as_u64()).unwrap_or(0) {
        ctx.extra.insert("slowest_case_ms".into(), json!(ms));
        ctx.extra.insert(
            "slowest_case".into(),
            json!({"streams": pool.streams.iter().map(|s| s.len()).collect::<Vec<_>>(), "files": pool.files.iter().map(|s| s.len()).collect::<Vec<_>>(),
                   "history": plan.history.len(), "threads": plan.threads.len(), "child": plan.child}),
        );
        if ms > 10_000 {
            let _ = std::fs::write(out_root().join("work").join("C14").join(format!("slow_case_{}.json", ctx.cfg.shard)), doc.to_string());
        }
    }
    ctx.sample(|| json!({"streams": pool.streams.iter().map(|s| s.len()).collect::<Vec<_>>(), "files": pool.files.iter().map(|s| s.len()).collect::<Vec<_>>(),
                         "history": plan.history.len(), "threads": plan.threads.len(), "child": plan.child}));
    r.map_err(|f| (f, doc))
}

/// soak: three different accepted streams through recompress (every 16th round also through
/// decompress(verify=true)) tens of thousands of times in one process, interleaved; every result
/// must equal the first for that stream (state that builds up over many calls: pools, caches,
/// counters that wrap)
fn soak_streams() -> Vec<Vec<u8>> {
    let mut v = vec![];
    for (k, level) in [(0u32, 6), (1, 1), (2, 9)] {
        let n = 500 + 300 * k;
        let plain: Vec<u8> = (0..n)
            .map(|i| b"the quick brown fox jumps over "[((i * (k + 1)) % 31) as usize] ^ ((i / (97 + k)) as u8 & 3))
            .collect();
        v.push(crate::gen_comp::zlib_deflate_raw(&plain, &crate::gen_comp::ZCfg::simple(level)).unwrap());
    }
    v
}

fn soak(ctx: &mut Ctx, rounds: u64) {
    let doc = json!({"kind":"c14-soak","rounds":rounds});
    ctx.set_inflight(&doc);
    if let Err(f) = soak_run(rounds, ctx) {
        if !ctx.is_known(&f) {
            ctx.record_failure(&f, &doc);
        }
    }
}

fn soak_run(rounds: u64, ctx: &mut Ctx) -> Result<(), Failure> {
    let streams = soak_streams();
    let mut firsts = vec![];
    for s in &streams {
        match lib_split(s, true) {
            Ok(Ok(sp)) => firsts.push(sp),
            _ => return Ok(()),
        }
    }
    let d0: Vec<String> = firsts.iter().map(|f| digest_split(Ok(Ok(f.clone())))).collect();
    let r0: Vec<String> = firsts.iter().map(|f| digest_bytes(lib_recompress(&f.plain, &f.corr))).collect();
    for i in 0..rounds {
        for (k, f) in firsts.iter().enumerate() {
            let r = digest_bytes(lib_recompress(&f.plain, &f.corr));
            if r != r0[k] {
                return Err(mismatch("history-dependence", (2, k as u8), &r0[k], &r, &format!("round {} of a soak run", i)));
            }
        }
        if i % 16 == 0 {
            let k = (i / 16) as usize % streams.len();
            let d = digest_split(lib_split(&streams[k], true));
            if d != d0[k] {
                return Err(mismatch("history-dependence", (1, k as u8), &d0[k], &d, &format!("round {} of a soak run", i)));
            }
        }
        if i % 2000 == 0 {
            ctx.set_inflight(&json!({"kind":"c14-soak","rounds":rounds}));
        }
    }
    ctx.evals(1);
    ctx.class_n("soak-rounds", rounds);
    Ok(())
}

fn worker(ctx: &mut Ctx) {
    soak(ctx, 70_000);
    let cases = match ctx.cfg.tier {
        Tier::Quick => 4_000u64,
        Tier::Thorough => 80_000u64,
    };
    let run = DnaRun { cases: ctx.cfg.share(cases), max_dna: 900, shrink_iters: 40, stream: 0 };
    if let Some((f, doc)) = run_dna(ctx, &run, eval_dna) {
        ctx.record_failure(&f, &doc);
    }
}

fn replay(doc: &Value, ctx: &mut Ctx) -> Result<(), Failure> {
    let bad = || Failure::new("C14", "harness", "bad-replay-doc", "replay document incomplete".into());
    if doc.get("kind").and_then(|k| k.as_str()) == Some("c14-soak") {
        let rounds = doc.get("rounds").and_then(|c| c.as_u64()).unwrap_or(70_000);
        return soak_run(rounds, ctx);
    }
    let pool = pool_from_doc(doc.get("pool").ok_or_else(bad)?).ok_or_else(bad)?;
    let ops = |k: &str| -> Vec<Op> {
        doc.get(k)
            .and_then(|a| a.as_array())
            .map(|a| a.iter().filter_map(|x| Some((x.get(0)?.as_u64()? as u8, x.get(1)?.as_u64()? as u8))).collect())
            .unwrap_or_default()
    };
    let threads: Vec<Vec<Op>> = doc
        .get("threads")
        .and_then(|a| a.as_array())
        .map(|a| {
            a.iter()
                .map(|t| t.as_array().map(|t| t.iter().filter_map(|x| Some((x.get(0)?.as_u64()? as u8, x.get(1)?.as_u64()? as u8))).collect()).unwrap_or_default())
                .collect()
        })
        .unwrap_or_default();
    let plan = Plan { history: ops("history"), threads, child: doc.get("child").and_then(|c| c.as_bool()).unwrap_or(false) };
    // a schedule-dependent failure may need several attempts to show again
    for _ in 0..20 {
        check(&pool, &plan, ctx)?;
    }
    Ok(())
}
