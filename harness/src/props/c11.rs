//! C11 — zstd wrappers round-trip; capacity and framing problems are errors

use super::common::*;
use super::PropDef;
use crate::dna::{fnv64, hex, Dna, Mix};
use crate::engine::*;
use crate::gen_file::gen_file_opts;
use serde_json::{json, Value};

pub static DEF: PropDef = PropDef {
    id: "C11",
    level: "exploration",
    rule: "cases: files F from the container generator (with and without embedded streams, intact and damaged) x \
capacity in {0, 1, |E|-1, |E|, |E|+1, |E|+k, 64 MiB, and the offsets of the last 6 chunk boundaries of E (+1 / -1)} where E = expand_zlib_chunks(F); plus 36 deterministic tiny files (0..12 bytes) with EVERY capacity 0..|E|+2; plus a deterministic sweep of files whose expanded form has 2^k, 2^k+-1 (k=12..18; ..20 thorough) or 2/3/5 x 2^17 (+-1) bytes; and non-frames: empty input, 1-3 \
bytes, random bytes that start with neither a zstd nor a skippable-frame magic, strict prefixes of a valid frame, a \
valid frame followed by trailing non-frame bytes. Oracle: capacity >= |E| => decompress_zstd(compress_zstd(F), capacity) \
== Ok(F); capacity < |E| => Err; non-frame => Err; never a panic; never Ok(x) with x != F for an untouched frame. \
Non-trivial = E holds at least one expanded stream (capacity boundary cases |E|-1, |E|, |E|+1 all exercised); \
distinct = hash of F.",
    assumptions: &[
        "bit-flipped but still well-formed frames are not asserted on (zstd frames carry no checksum by default)",
    ],
    worker,
    replay,
    exh: None,
    totality: true,
    aggregate: None,
};

fn dz(data: &[u8], cap: usize) -> Result<Result<Vec<u8>, LibErr>, Caught> {
    guard(|| preflate_rs::decompress_zstd(data, cap).map_err(|e| err_info(&e)))
}

/// mode "frame": data = file F; mode "nonframe": data = the non-frame input itself
pub fn check_file(f: &[u8], k: usize, ctx: &mut Ctx) -> Result<(), Failure> {
    ctx.eval();
    let e = match lib_expand(f) {
        Ok(Ok(e)) => e,
        _ => {
            ctx.discard("expand_zlib_chunks failed or panicked (C01's subject)");
            return Ok(());
        }
    };
    let c = match guard(|| preflate_rs::compress_zstd(f, 0).map_err(|e| err_info(&e))) {
        Ok(Ok(c)) => c,
        Ok(Err(er)) => {
            return Err(Failure::new("C11", "compress-err", exit_code_name(er.code), er.msg));
        }
        Err(cg) => return Err(panic_failure("C11", "compress_zstd", &cg)),
    };
    let n = e.len();
    let mut caps: Vec<usize> = vec![0, 1, n.saturating_sub(1), n, n + 1, n + k.max(2), 64 << 20];
    if n <= 24 {
        // tiny expanded forms: every capacity
        caps.extend(0..n + 3);
    }
    // capacities that cut the expanded form exactly at (and next to) a chunk boundary: a prefix
    // that ends on a boundary is itself a well-formed shorter container
    if let Ok(chunks) = crate::model_container::parse_container(&e) {
        for c in chunks.iter().rev().take(6) {
            for x in [c.tag_off, c.tag_off + 1, c.end.saturating_sub(1)] {
                if x < n {
                    caps.push(x);
                }
            }
        }
    }
    caps.sort();
    caps.dedup();
    for cap in caps {
        match dz(&c, cap) {
            Err(cg) => return Err(panic_failure("C11", &format!("decompress_zstd(cap={}{:+})", "|E|", cap as i64 - n as i64), &cg)),
            Ok(Ok(out)) => {
                if cap < n {
                    return Err(Failure::new(
                        "C11",
                        "wrong-status",
                        "Ok-below-capacity",
                        format!("capacity {} < expanded size {} but decompress_zstd returned Ok({} bytes)", cap, n, out.len()),
                    ));
                }
                if out != f {
                    return Err(Failure::new(
                        "C11",
                        "mismatch",
                        "Ok-with-different-data",
                        format!("capacity {} (expanded size {}): returned {} bytes, expected the {} byte file; first difference at {}", cap, n, out.len(), f.len(), first_diff(&out, f)),
                    ));
                }
            }
            Ok(Err(er)) => {
                if cap >= n {
                    return Err(Failure::new(
                        "C11",
                        "wrong-status",
                        &format!("Err-at-sufficient-capacity:{}", exit_code_name(er.code)),
                        format!("capacity {} >= expanded size {} but decompress_zstd returned Err: {}", cap, n, er.msg),
                    ));
                }
            }
        }
        ctx.class(if cap < n { "capacity<|E|:Err" } else { "capacity>=|E|:Ok(F)" });
    }
    // strict prefixes and trailing bytes of this frame
    let mut m = Mix::new(fnv64(f) ^ k as u64);
    let mut nonframes: Vec<(String, Vec<u8>)> = vec![];
    if c.len() > 1 {
        for _ in 0..3 {
            let cut = m.range(1, c.len() - 1);
            nonframes.push((format!("prefix{}", cut), c[..cut].to_vec()));
        }
        nonframes.push(("prefix-1".into(), c[..c.len() - 1].to_vec()));
    }
    let mut t = c.clone();
    let tl = m.range(1, 20);
    for i in 0..tl {
        let mut b = m.u8();
        if i == 0 {
            // must not look like the start of another frame
            while b == 0x28 || (0x50..=0x5f).contains(&b) {
                b = m.u8();
            }
        }
        t.push(b);
    }
    nonframes.push(("frame+trailing".into(), t));
    for (name, nf) in nonframes {
        check_nonframe(&nf, n + 4096, &name, ctx)?;
    }
    match container_labels(&e) {
        Ok((ls, nonlit)) => {
            if nonlit > 0 {
                ctx.nontrivial(fnv64(f));
            }
            for l in ls {
                ctx.class(&l);
            }
        }
        Err(_) => ctx.discard("harness: container model failed"),
    }
    Ok(())
}

pub fn check_nonframe(data: &[u8], cap: usize, what: &str, ctx: &mut Ctx) -> Result<(), Failure> {
    let class = what.trim_end_matches(|c: char| c.is_ascii_digit());
    match dz(data, cap) {
        Err(cg) => Err(panic_failure("C11", &format!("decompress_zstd({})", class), &cg)),
        Ok(Ok(out)) => Err(Failure::new(
            "C11",
            "wrong-status",
            &format!("Ok-for-nonframe:{}", class),
            format!("input that is not a zstd frame ({}, {} bytes) gave Ok({} bytes)", what, data.len(), out.len()),
        )),
        Ok(Err(_)) => {
            ctx.class(&format!("nonframe:{}:Err", class));
            Ok(())
        }
    }
}

fn gen_nonframe(dna: &mut Dna) -> (Vec<u8>, &'static str) {
    match dna.below(4) {
        0 => (vec![], "empty"),
        1 => {
            let n = dna.range(1, 3);
            let mut v = dna.bytes(n);
            if v.len() >= 1 && (v[0] == 0x28 || (0x50..=0x5f).contains(&v[0])) {
                v[0] = 0;
            }
            (v, "short")
        }
        _ => {
            let n = dna.range(4, 400);
            let mut m = Mix::new(dna.u64());
            let mut v: Vec<u8> = (0..n).map(|_| m.u8()).collect();
            // neither zstd magic (28 B5 2F FD) nor skippable magic (5x 2A 4D 18)
            if v[0] == 0x28 || (0x50..=0x5f).contains(&v[0]) {
                v[0] ^= 0x80;
            }
            (v, "random")
        }
    }
}

fn eval_dna(dna_bytes: &[u8], ctx: &mut Ctx) -> Result<(), (Failure, Value)> {
    let mut dna = Dna::new(dna_bytes);
    if dna.chance(25) {
        let (nf, what) = gen_nonframe(&mut dna);
        let doc = json!({"kind":"c11-nonframe","hex":hex(&nf),"what":what});
        ctx.set_inflight(&doc);
        ctx.eval();
        return check_nonframe(&nf, 1 << 20, what, ctx).map_err(|f| (f, doc));
    }
    let k = dna.range(2, 5000);
    let case = gen_file_opts(&mut dna, dna_bytes.len() % 3 != 0);
    let doc = json!({"kind":"c11-file","hex":hex(&case.bytes),"k":k});
    ctx.set_inflight(&doc);
    for l in &case.labels {
        ctx.class(l);
    }
    let r = check_file(&case.bytes, k, ctx);
    ctx.sample(|| sample_bytes(&case.desc, &case.bytes, json!({"k": k})));
    r.map_err(|f| (f, doc))
}

/// pad `file` with trailing junk until its expanded form has exactly `target` bytes
fn pad_to_expanded_size(mut file: Vec<u8>, target: usize) -> Option<Vec<u8>> {
    let mut m = Mix::new(target as u64 ^ 0xE5);
    for _ in 0..6 {
        let e = match lib_expand(&file) {
            Ok(Ok(e)) => e.len(),
            _ => return None,
        };
        if e == target {
            return Some(file);
        }
        if e < target {
            let add = target - e;
            file.extend((0..add).map(|_| crate::gen_file::safe_junk_byte(&mut m)));
        } else {
            let cut = e - target;
            if cut >= file.len() {
                return None;
            }
            file.truncate(file.len() - cut);
        }
    }
    None
}

/// deterministic sweep: files whose EXPANDED form has a size of 2^k, 2^k +- 1 or a small multiple
/// of 2^17 (buffer-size boundaries of streaming decoders), with and without an embedded stream
fn size_sweep(ctx: &mut Ctx) {
    let mut targets: Vec<usize> = vec![];
    for k in 12..=20 {
        for d in [-1i64, 0, 1] {
            targets.push(((1i64 << k) + d) as usize);
        }
    }
    for mult in [2usize, 3, 5] {
        for d in [-1i64, 0, 1] {
            targets.push((mult as i64 * 131072 + d) as usize);
        }
    }
    let max = if ctx.cfg.tier == Tier::Quick { 300_000 } else { usize::MAX };
    for (i, &t) in targets.iter().enumerate() {
        if t > max || (i as u32) % ctx.cfg.nshards != ctx.cfg.shard {
            continue;
        }
        for with_stream in [false, true] {
            let base: Vec<u8> = if with_stream {
                let dna_bytes: Vec<u8> = (0..300u32).map(|x| (x.wrapping_mul(131).wrapping_add(t as u32 * 7) >> 3) as u8).collect();
                let mut d = Dna::new(&dna_bytes);
                let plain = crate::gen_plain::gen_plain_sized(&mut d, 1500);
                let stream = crate::gen_comp::zlib_deflate_raw(&plain, &crate::gen_comp::ZCfg::simple(6)).unwrap();
                let mut f = vec![0x78, 0x9c];
                f.extend_from_slice(&stream);
                f.extend_from_slice(&crate::gen_comp::adler32(&plain).to_be_bytes());
                f
            } else {
                vec![0u8; 16]
            };
            if let Some(f) = pad_to_expanded_size(base, t) {
                let doc = json!({"kind":"c11-file","hex":hex(&f),"k":2});
                ctx.set_inflight(&doc);
                ctx.class("sweep:expanded-size-at-power-of-two");
                if let Err(fl) = check_file(&f, 2, ctx) {
                    if !ctx.is_known(&fl) {
                        ctx.record_failure(&fl, &doc);
                        return;
                    }
                }
            }
        }
    }
}

fn worker(ctx: &mut Ctx) {
    size_sweep(ctx);
    // deterministic tiny files: expanded forms of 3..15 bytes, every capacity 0..|E|+2
    for (i, f) in tiny_files().iter().enumerate() {
        if i as u32 % ctx.cfg.nshards != ctx.cfg.shard {
            continue;
        }
        let doc = json!({"kind":"c11-file","hex":hex(f),"k":2});
        ctx.set_inflight(&doc);
        ctx.class("file:tiny(0..12 bytes, deterministic)");
        if let Err(fl) = check_file(f, 2, ctx) {
            if !ctx.is_known(&fl) {
                ctx.record_failure(&fl, &doc);
            }
            return;
        }
    }
    let cases = match ctx.cfg.tier {
        Tier::Quick => 24_000u64,
        Tier::Thorough => 400_000u64,
    };
    let run = DnaRun {
        cases: ctx.cfg.share(cases),
        max_dna: 900,
        shrink_iters: 200,
        stream: 0,
    };
    if let Some((f, doc)) = run_dna(ctx, &run, eval_dna) {
        if doc["kind"] == "c11-file" {
            let k = doc["k"].as_u64().unwrap_or(2) as usize;
            minimise_and_record(ctx, f, doc, 1500, move |cand, _doc, ctx| check_file(cand, k, ctx));
        } else {
            ctx.record_failure(&f, &doc);
        }
    }
}

fn replay(doc: &Value, ctx: &mut Ctx) -> Result<(), Failure> {
    let data = doc_bytes(doc, "hex").ok_or_else(|| {
        Failure::new("C11", "harness", "bad-replay-doc", "replay document has no hex field".into())
    })?;
    if doc.get("kind").and_then(|k| k.as_str()) == Some("c11-nonframe") {
        let what = doc.get("what").and_then(|w| w.as_str()).unwrap_or("random").to_string();
        ctx.eval();
        check_nonframe(&data, 1 << 20, &what, ctx)
    } else {
        let k = doc.get("k").and_then(|k| k.as_u64()).unwrap_or(2) as usize;
        check_file(&data, k, ctx)
    }
}
