//! C08 — reconstruction never depends on the estimated parameters being right

use super::common::*;
use super::PropDef;
use crate::dna::{fnv64, hex, Dna};
use crate::engine::*;
use crate::gen_stream::{gen_stream, StreamMix};
use preflate_rs::verif_hooks as hooks;
use preflate_rs::verif_hooks::*;
use serde_json::{json, Value};

pub static DEF: PropDef = PropDef {
    id: "C08",
    level: "exploration",
    rule: "cases: parseable streams (real compressors and the independent generator, biased to <= 64 KiB) x parameter \
vectors: the estimator's own output, perturbations of 1-3 fields of it, and fully generated vectors, every field drawn \
from the range the estimator can emit (8 hash variants, add policy AddAll / AddFirst(0..255) / AddFirstAndLast(0..255) / \
Except4k / With32k, Greedy or one of the six lazy rows, nice length 8/16/32/128/258, max_chain 1..4096, window bits \
9..15, max_token_count 2^(6+m)-1, max_dist_3_matches 0..32768, min_len 3..258, 4 strategies, 3 huffman strategies, 3 \
flags) plus the no-dictionary vector. Oracle (hooks estimate / roundtrip_with_params = the bodies of \
decompress_deflate_stream(verify=false) and recompress_deflate_stream with the estimator replaced): result is Err, or \
the reconstruction equals D[..consumed] and the vector read back equals the vector written; a panic is a violation. \
Non-trivial = vector differs from the estimate, result Ok, stream has a reference; distinct = hash of (stream, vector).",
    assumptions: &[
        "structurally impossible joint combinations (a real hash with window_bits 0 or max_chain 0) are not generated",
    ],
    worker,
    replay,
    exh: None,
    totality: true,
    aggregate: None,
};

const MIX_C08: StreamMix = StreamMix {
    comp: 55,
    syn: 45,
    mutated: 0,
    noise: 0,
    sizes: [25, 50, 22, 3],
};

const FIELD_NAMES: [&str; PARAM_LEN] = [
    "strategy", "huff_strategy", "zlib_compatible", "window_bits", "hash_algorithm", "hash_shift", "hash_mask",
    "max_token_count", "max_dist_3_matches", "very_far_matches", "matches_to_start", "good_length", "max_lazy",
    "nice_length", "max_chain", "min_len", "add_policy", "add_policy_limit",
];

const LAZY_ROWS: [(u32, u32); 7] = [(0, 0), (4, 4), (8, 16), (8, 16), (8, 32), (32, 128), (32, 258)];

thread_local! {
    static MAX_DIST_HINT: std::cell::Cell<u32> = std::cell::Cell::new(32768);
}

/// largest distance of the stream under test (set by eval_dna before perturbing)
fn tight_window_hint() -> u32 {
    MAX_DIST_HINT.with(|c| c.get())
}

fn default_vector() -> Vec<u32> {
    let mut v = vec![0u32; PARAM_LEN];
    v[P_ZLIB_COMPATIBLE] = 1;
    v[P_WINDOW_BITS] = 15;
    v[P_HASH_ALGORITHM] = 1;
    v[P_HASH_SHIFT] = 5;
    v[P_HASH_MASK] = 0x7fff;
    v[P_MAX_TOKEN_COUNT] = 16383;
    v[P_MAX_DIST_3_MATCHES] = 4096;
    v[P_GOOD_LENGTH] = 8;
    v[P_MAX_LAZY] = 16;
    v[P_NICE_LENGTH] = 128;
    v[P_MAX_CHAIN] = 128;
    v[P_MIN_LEN] = 3;
    v
}

fn no_dictionary_vector(strategy: u32, huff: u32) -> Vec<u32> {
    let mut v = vec![0u32; PARAM_LEN];
    v[P_STRATEGY] = strategy;
    v[P_HUFF_STRATEGY] = huff;
    v[P_ZLIB_COMPATIBLE] = 1;
    v[P_MAX_TOKEN_COUNT] = 16386;
    v
}

/// perturb one group of fields; returns the group's name
fn perturb(v: &mut Vec<u32>, dna: &mut Dna) -> &'static str {
    match dna.below(18) {
        17 => {
            // window just large enough for the largest distance (or one bit short of it)
            let md = tight_window_hint();
            let wb = (32 - (md.max(2) - 1).leading_zeros()).clamp(9, 15);
            v[P_WINDOW_BITS] = if dna.chance(25) { (wb - 1).max(9) } else { wb };
            "tight-window"
        }
        15 | 16 => {
            let f = [P_ZLIB_COMPATIBLE, P_VERY_FAR_MATCHES, P_MATCHES_TO_START, P_MATCHES_TO_START][dna.below(4)];
            v[f] ^= 1;
            "flags"
        }
        13 => {
            // lazy matching that keeps looking beyond the nice length (not a zlib preset,
            // but each field is inside its emit range)
            v[P_GOOD_LENGTH] = [4u32, 8, 32][dna.below(3)];
            v[P_MAX_LAZY] = [16u32, 32, 128, 258][dna.below(4)];
            v[P_NICE_LENGTH] = [8u32, 16][dna.below(2)];
            v[P_MAX_CHAIN] = [4u32, 8, 32, 128][dna.below(4)];
            "lazy-beyond-nice"
        }
        14 => {
            // boundary values of the numeric fields
            v[P_MAX_CHAIN] = [1u32, 2, 4095, 4096][dna.below(4)];
            v[P_MAX_DIST_3_MATCHES] = [0u32, 1, 32767, 32768][dna.below(4)];
            v[P_MAX_TOKEN_COUNT] = [127u32, 32767][dna.below(2)];
            "boundaries"
        }
        0 => {
            let (h, s, m) = [(1u32, 5u32, 0x7fffu32), (1, 4, 2047), (2, 0, 0), (3, 0, 0), (4, 0, 0), (5, 0, 0), (6, 0, 0), (7, 0, 0)]
                [dna.below(8)];
            v[P_HASH_ALGORITHM] = h;
            v[P_HASH_SHIFT] = s;
            v[P_HASH_MASK] = m;
            "hash"
        }
        1 => {
            let k = dna.below(5) as u32;
            v[P_ADD_POLICY] = k;
            v[P_ADD_POLICY_LIMIT] = if k == 1 || k == 2 {
                match dna.below(4) {
                    0 => dna.range(0, 8) as u32,
                    1 => dna.range(0, 255) as u32,
                    2 => 255,
                    _ => [4u32, 5, 6, 96, 191][dna.below(5)],
                }
            } else {
                0
            };
            "add_policy"
        }
        2 => {
            let (g, l) = LAZY_ROWS[dna.below(7)];
            v[P_GOOD_LENGTH] = g;
            v[P_MAX_LAZY] = l;
            "matching"
        }
        3 => {
            v[P_NICE_LENGTH] = [8u32, 16, 32, 128, 258][dna.below(5)];
            "nice_length"
        }
        4 => {
            v[P_MAX_CHAIN] = match dna.below(3) {
                0 => dna.range(1, 8) as u32,
                1 => dna.range(1, 256) as u32,
                _ => dna.range(1, 4096) as u32,
            };
            "max_chain"
        }
        5 => {
            v[P_WINDOW_BITS] = dna.range(9, 15) as u32;
            "window_bits"
        }
        6 => {
            v[P_MAX_TOKEN_COUNT] = (1u32 << (6 + dna.range(1, 9))) - 1;
            "max_token_count"
        }
        7 => {
            v[P_MAX_DIST_3_MATCHES] = match dna.below(3) {
                0 => dna.range(0, 16) as u32,
                1 => [4096u32, 4095, 32768, 32767][dna.below(4)],
                _ => dna.range(0, 32768) as u32,
            };
            "max_dist_3_matches"
        }
        8 => {
            v[P_MIN_LEN] = if dna.bool() { dna.range(3, 5) as u32 } else { dna.range(3, 258) as u32 };
            "min_len"
        }
        9 => {
            v[P_STRATEGY] = dna.below(4) as u32;
            "strategy"
        }
        10 => {
            v[P_HUFF_STRATEGY] = dna.below(3) as u32;
            "huff_strategy"
        }
        11 => {
            let f = [P_ZLIB_COMPATIBLE, P_VERY_FAR_MATCHES, P_MATCHES_TO_START][dna.below(3)];
            v[f] ^= 1;
            "flags"
        }
        _ => {
            // everything at once
            let mut names = 0;
            while names < 12 {
                // re-enter with the first twelve groups
                let _ = perturb_group(v, dna, names);
                names += 1;
            }
            "all"
        }
    }
}

fn perturb_group(v: &mut Vec<u32>, dna: &mut Dna, g: usize) -> &'static str {
    // used by the "all" perturbation: group g, field values from the DNA
    match g {
        0 => {
            let (h, s, m) = [(1u32, 5u32, 0x7fffu32), (1, 4, 2047), (2, 0, 0), (3, 0, 0), (4, 0, 0), (5, 0, 0), (6, 0, 0), (7, 0, 0)]
                [dna.below(8)];
            v[P_HASH_ALGORITHM] = h;
            v[P_HASH_SHIFT] = s;
            v[P_HASH_MASK] = m;
            "hash"
        }
        1 => {
            let k = dna.below(5) as u32;
            v[P_ADD_POLICY] = k;
            v[P_ADD_POLICY_LIMIT] = if k == 1 || k == 2 { dna.range(0, 255) as u32 } else { 0 };
            "add_policy"
        }
        2 => {
            let (gl, l) = LAZY_ROWS[dna.below(7)];
            v[P_GOOD_LENGTH] = gl;
            v[P_MAX_LAZY] = l;
            "matching"
        }
        3 => {
            v[P_NICE_LENGTH] = [8u32, 16, 32, 128, 258][dna.below(5)];
            "nice_length"
        }
        4 => {
            v[P_MAX_CHAIN] = dna.range(1, 4096) as u32;
            "max_chain"
        }
        5 => {
            v[P_WINDOW_BITS] = dna.range(9, 15) as u32;
            "window_bits"
        }
        6 => {
            v[P_MAX_TOKEN_COUNT] = (1u32 << (6 + dna.range(1, 9))) - 1;
            "max_token_count"
        }
        7 => {
            v[P_MAX_DIST_3_MATCHES] = dna.range(0, 32768) as u32;
            "max_dist_3_matches"
        }
        8 => {
            v[P_MIN_LEN] = dna.range(3, 258) as u32;
            "min_len"
        }
        9 => {
            v[P_STRATEGY] = dna.below(4) as u32;
            "strategy"
        }
        10 => {
            v[P_HUFF_STRATEGY] = dna.below(3) as u32;
            "huff_strategy"
        }
        _ => {
            for f in [P_ZLIB_COMPATIBLE, P_VERY_FAR_MATCHES, P_MATCHES_TO_START] {
                v[f] = dna.below(2) as u32;
            }
            "flags"
        }
    }
}

pub fn check(stream: &[u8], vector: &[u32], estimate: Option<&[u32]>, group: &str, ctx: &mut Ctx) -> Result<(), Failure> {
    ctx.eval();
    let r = guard(|| {
        hooks::roundtrip_with_params_staged(stream, vector).map(|r| match r {
            hooks::StagedRoundtrip::AnalysisErr(e) => Err((false, err_info(&e))),
            hooks::StagedRoundtrip::ReconstructErr { error, .. } => Err((true, err_info(&error))),
            hooks::StagedRoundtrip::Done(rt) => Ok(rt),
        })
    });
    let hashname = ["None", "Zlib", "MiniZFast", "Libdeflate4", "Libdeflate4Fast", "ZlibNG", "RandomVector", "Crc32c"]
        [(vector[P_HASH_ALGORITHM] as usize).min(7)];
    match r {
        Err(c) => Err(panic_failure("C08", &format!("roundtrip_with_params(hash={}, group={})", hashname, group), &c)),
        Ok(None) => {
            ctx.discard("harness: vector not representable");
            Ok(())
        }
        Ok(Some(Err((false, e)))) => {
            // the analysis rejected the stream under these parameters: permitted
            ctx.class(&format!("{}:Err", group));
            ctx.class(&format!("hash:{}:Err", hashname));
            ctx.class(&format!("Err:{}", exit_code_name(e.code)));
            Ok(())
        }
        Ok(Some(Err((true, e)))) => Err(Failure::new(
            "C08",
            "reconstruct-err",
            exit_code_name(e.code),
            format!(
                "analysis under hash={} (perturbed group {}) produced correction data, but reconstruction from it failed: {}",
                hashname, group, e.msg
            ),
        )),
        Ok(Some(Ok(rt))) => {
            if rt.consumed > stream.len() || rt.reconstructed[..] != stream[..rt.consumed] {
                return Err(Failure::new(
                    "C08",
                    "mismatch",
                    "reconstruct!=input",
                    format!(
                        "with hash={} perturbed group={} the corrections reconstruct {} bytes that differ from the {} consumed (first difference at {})",
                        hashname,
                        group,
                        rt.reconstructed.len(),
                        rt.consumed,
                        first_diff(&rt.reconstructed, &stream[..rt.consumed.min(stream.len())])
                    ),
                ));
            }
            if rt.reread[..] != vector[..] {
                let field = (0..PARAM_LEN).find(|&i| rt.reread[i] != vector[i]).unwrap();
                return Err(Failure::new(
                    "C08",
                    "mismatch",
                    &format!("reread!=written:{}", FIELD_NAMES[field]),
                    format!("field {} written {} read back {}", FIELD_NAMES[field], vector[field], rt.reread[field]),
                ));
            }
            ctx.class(&format!("{}:Ok", group));
            ctx.class(&format!("hash:{}:Ok", hashname));
            let differs = estimate.map(|e| e != vector).unwrap_or(true);
            if differs {
                if let Ok(Ok(sum)) = lib_parse(stream) {
                    if sum.blocks.iter().any(|b| b.references > 0) {
                        let mut key = stream[..rt.consumed].to_vec();
                        for x in vector {
                            key.extend_from_slice(&x.to_le_bytes());
                        }
                        ctx.nontrivial(fnv64(&key));
                    }
                }
            }
            Ok(())
        }
    }
}

fn mk_doc(stream: &[u8], vector: &[u32], group: &str) -> Value {
    json!({"kind":"c08","hex":hex(stream),"vector":vector,"group":group,
           "fields": FIELD_NAMES.iter().zip(vector.iter()).map(|(n, v)| format!("{}={}", n, v)).collect::<Vec<_>>()})
}

fn eval_dna(dna_bytes: &[u8], ctx: &mut Ctx) -> Result<(), (Failure, Value)> {
    let mut dna = Dna::new(dna_bytes);
    // vector choices first (fixed DNA budget), then the stream
    let vec_dna = dna.bytes(160);
    let case = gen_stream(&mut dna, &MIX_C08);
    ctx.set_inflight(&json!({"kind":"c08-stream","hex":hex(&case.bytes)}));
    match lib_parse(&case.bytes) {
        Ok(Ok(sum)) => MAX_DIST_HINT.with(|c| c.set(sum.max_dist.max(1))),
        _ => {
            ctx.discard("stream does not parse");
            return Ok(());
        }
    }
    ctx.class(&format!("source:{}", case.source));
    let est = match guard(|| hooks::estimate(&case.bytes).map_err(|e| err_info(&e))) {
        Ok(Ok(v)) => Some(v),
        Ok(Err(_)) => {
            ctx.class("estimate:Err(default-vector-used)");
            None
        }
        Err(_) => {
            ctx.class("estimate:panic(->C05)");
            None
        }
    };
    let base = match &est {
        Some(v) if v[P_HASH_ALGORITHM] != 0 => v.clone(),
        _ => default_vector(),
    };
    let mut vd = Dna::new(&vec_dna);
    // 1. the estimator's own vector
    if let Some(v) = &est {
        let doc = mk_doc(&case.bytes, v, "estimate");
        ctx.set_inflight(&doc);
        check(&case.bytes, v, est.as_deref(), "estimate", ctx).map_err(|f| (f, doc))?;
    }
    // 2. perturbations
    for _ in 0..7 {
        let mut v = base.clone();
        let n = [1usize, 1, 1, 2, 3][vd.below(5)];
        let mut group = "";
        for _ in 0..n {
            group = perturb(&mut v, &mut vd);
        }
        let group = if n > 1 { "multi" } else { group };
        let doc = mk_doc(&case.bytes, &v, group);
        ctx.set_inflight(&doc);
        check(&case.bytes, &v, est.as_deref(), group, ctx).map_err(|f| (f, doc))?;
    }
    // 3. the no-dictionary vector
    {
        let mut v = no_dictionary_vector([2u32, 3][vd.below(2)], vd.below(3) as u32);
        if vd.chance(50) {
            // a no-dictionary STRATEGY on top of the base vector's dictionary fields (hash, chain,
            // window) and arbitrary flags: every field is inside its range, the combination is
            // one the estimator would not choose
            let strategy = v[P_STRATEGY];
            let huff = v[P_HUFF_STRATEGY];
            v = base.clone();
            v[P_STRATEGY] = strategy;
            v[P_HUFF_STRATEGY] = huff;
            for f in [P_ZLIB_COMPATIBLE, P_VERY_FAR_MATCHES, P_MATCHES_TO_START] {
                v[f] = vd.below(2) as u32;
            }
        }
        let doc = mk_doc(&case.bytes, &v, "no-dictionary");
        ctx.set_inflight(&doc);
        check(&case.bytes, &v, est.as_deref(), "no-dictionary", ctx).map_err(|f| (f, doc))?;
    }
    // 4. a two-table hash (libdeflate's 3-byte head + 4-byte chain) on the base vector: the only
    //    chain iterators that can report one position twice
    {
        let mut v = base.clone();
        v[P_HASH_ALGORITHM] = if vd.chance(25) { 4 } else { 3 };
        v[P_HASH_SHIFT] = 0;
        v[P_HASH_MASK] = 0;
        v[P_MAX_CHAIN] = [16u32, 64, 256, 4096][vd.below(4)];
        if vd.chance(50) {
            v[P_NICE_LENGTH] = 258;
        }
        let doc = mk_doc(&case.bytes, &v, "two-table-hash");
        ctx.set_inflight(&doc);
        check(&case.bytes, &v, est.as_deref(), "two-table-hash", ctx).map_err(|f| (f, doc))?;
    }
    ctx.sample(|| sample_bytes(&case.desc, &case.bytes, json!({"estimate": est})));
    Ok(())
}

fn worker(ctx: &mut Ctx) {
    let cases = match ctx.cfg.tier {
        Tier::Quick => 5_000u64,
        Tier::Thorough => 40_000u64,
    };
    let run = DnaRun {
        cases: ctx.cfg.share(cases),
        max_dna: 800,
        shrink_iters: 150,
        stream: 0,
    };
    if let Some((f, doc)) = run_dna(ctx, &run, eval_dna) {
        let vector: Vec<u32> = doc["vector"].as_array().map(|a| a.iter().map(|x| x.as_u64().unwrap_or(0) as u32).collect()).unwrap_or_default();
        let group = doc["group"].as_str().unwrap_or("").to_string();
        // keep the vector, minimise the stream
        let sig = f.sig.clone();
        if let Some(bytes) = doc_bytes(&doc, "hex") {
            let was = ctx.counting;
            ctx.counting = false;
            let min = ddmin_bytes(&bytes, 1500, |cand| match check(cand, &vector, None, &group, ctx) {
                Err(f2) => f2.sig == sig,
                Ok(()) => false,
            });
            ctx.counting = was;
            ctx.record_failure(&f, &mk_doc(&min, &vector, &group));
        } else {
            ctx.record_failure(&f, &doc);
        }
    }
}

fn replay(doc: &Value, ctx: &mut Ctx) -> Result<(), Failure> {
    let bad = || Failure::new("C08", "harness", "bad-replay-doc", "replay document incomplete".into());
    let stream = doc_bytes(doc, "hex").ok_or_else(bad)?;
    if doc.get("kind").and_then(|k| k.as_str()) == Some("c08-stream") {
        // worker died outside a vector evaluation (estimate?): run the estimator and default vectors
        let est = hooks::estimate(&stream).ok();
        if let Some(v) = est {
            return check(&stream, &v, None, "estimate", ctx);
        }
        return Ok(());
    }
    let vector: Vec<u32> = doc
        .get("vector")
        .and_then(|a| a.as_array())
        .map(|a| a.iter().map(|x| x.as_u64().unwrap_or(0) as u32).collect())
        .ok_or_else(bad)?;
    let group = doc.get("group").and_then(|g| g.as_str()).unwrap_or("replay").to_string();
    check(&stream, &vector, None, &group, ctx)
}
