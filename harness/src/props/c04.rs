//! C04 — data written by the reference build is still reconstructed by the current build

use super::common::*;
use super::PropDef;
use crate::dna::{fnv64, hex, Dna};
use crate::engine::*;
use crate::gen_file::gen_file;
use crate::gen_stream::{gen_stream, StreamMix};
use preflate_ref::verif_hooks as rhooks;
use preflate_rs::verif_hooks as chooks;
use serde_json::{json, Value};

pub static DEF: PropDef = PropDef {
    id: "C04",
    level: "exploration",
    rule: "history = (writer: frozen reference build = pinned release + recorded fixes, linked into the harness as a \
second crate; reader: current working tree). Cases: streams D (real compressors, independent generator) and files F \
(container generator). Oracle, only while both builds declare the same two format version numbers: for every D the \
reference accepts, current recompress_deflate_stream(reference plain_text, reference corrections) == D[..size]; \
additionally the reference writer is asked (hook) to encode D with the hash algorithm replaced by every other member \
of the estimator's candidate set for that stream, and the current build must reconstruct from that too; for every F, \
current recreated_zlib_chunks(reference expand_zlib_chunks(F)) == F. Non-trivial = reference accepted and the stream \
has a reference token or dynamic block (files: at least one expanded chunk); distinct = hash of the input.",
    assumptions: &[
        "the reference copy under /verif/reference/preflate-ref is the pinned release plus the fix commits listed in KNOWN_FINDINGS.txt",
        "if the version constants differ the premise is false and the check passes without claiming anything (versions_differ in the evidence)",
    ],
    worker,
    replay,
    exh: None,
    totality: false,
    aggregate: None,
};

const MIX_C04: StreamMix = StreamMix {
    comp: 65,
    syn: 35,
    mutated: 0,
    noise: 0,
    sizes: [15, 45, 32, 8],
};

fn versions_equal() -> bool {
    chooks::format_versions() == rhooks::format_versions()
}

fn ref_split(data: &[u8]) -> Result<Result<Split, LibErr>, Caught> {
    guard(|| match preflate_ref::decompress_deflate_stream(data, true, 0) {
        Ok(r) => Ok(Split {
            plain: r.plain_text,
            corr: r.prediction_corrections,
            size: r.compressed_size,
        }),
        Err(e) => Err(LibErr {
            code: e.exit_code().as_integer_error_code(),
            msg: e.message().lines().next().unwrap_or("").to_string(),
        }),
    })
}

fn reconstruct_with_current(plain: &[u8], corr: &[u8], expected: &[u8], what: &str) -> Result<(), Failure> {
    match lib_recompress(plain, corr) {
        Err(c) => Err(Failure::new(
            "C04",
            "panic",
            &format!("{}:{}", what, c.site()),
            format!("current build panicked on reference-written corrections: {} at {}", c.msg, c.location),
        )),
        Ok(Err(e)) => Err(Failure::new(
            "C04",
            "recompress-err",
            &format!("{}:{}", what, exit_code_name(e.code)),
            format!("current build rejects reference-written corrections: {}", e.msg),
        )),
        Ok(Ok(out)) => {
            if out != expected {
                Err(Failure::new(
                    "C04",
                    "mismatch",
                    &format!("{}:reconstruction-differs", what),
                    format!(
                        "current build reconstructs {} bytes, original has {}; first difference at {}",
                        out.len(),
                        expected.len(),
                        first_diff(&out, expected)
                    ),
                ))
            } else {
                Ok(())
            }
        }
    }
}

const HASH_NAMES: [&str; 8] = ["None", "Zlib", "MiniZFast", "Libdeflate4", "Libdeflate4Fast", "ZlibNG", "RandomVector", "Crc32c"];

pub fn check_stream(d: &[u8], ctx: &mut Ctx, labels: &[String]) -> Result<(), Failure> {
    ctx.eval();
    if !versions_equal() {
        ctx.class("versions-differ:no-claim");
        return Ok(());
    }
    let r = match ref_split(d) {
        Ok(Ok(r)) => r,
        _ => {
            ctx.class("reference:rejects");
            return Ok(());
        }
    };
    ctx.class("reference:accepts");
    reconstruct_with_current(&r.plain, &r.corr, &d[..r.size], "genuine")?;
    let est = guard(|| rhooks::estimate(d)).ok().and_then(|r| r.ok());
    let mut nontrivial = false;
    if let Ok(Ok(sum)) = lib_parse(d) {
        nontrivial = has_refs_or_dynamic(&sum);
    }
    if nontrivial {
        ctx.nontrivial(fnv64(&d[..r.size]));
    }
    for l in labels {
        ctx.class(l);
    }
    if let Some(est) = est {
        let h = est[rhooks::P_HASH_ALGORITHM] as usize;
        ctx.class(&format!("reference-chose:hash:{}", HASH_NAMES[h.min(7)]));
        ctx.class(&format!("reference-chose:add-policy:{}", est[rhooks::P_ADD_POLICY]));
        if h != 0 {
            // the estimator's candidate set for this stream
            let cands: Vec<(u32, u32, u32)> = if est[rhooks::P_MIN_LEN] == 3 {
                vec![(2, 0, 0), (1, 5, 32767), (1, 4, 2047), (3, 0, 0), (6, 0, 0)]
            } else {
                vec![(4, 0, 0), (5, 0, 0), (7, 0, 0)]
            };
            for (ha, shift, mask) in cands {
                if ha == est[rhooks::P_HASH_ALGORITHM] && shift == est[rhooks::P_HASH_SHIFT] && mask == est[rhooks::P_HASH_MASK] {
                    continue;
                }
                let mut v = est.clone();
                v[rhooks::P_HASH_ALGORITHM] = ha;
                v[rhooks::P_HASH_SHIFT] = shift;
                v[rhooks::P_HASH_MASK] = mask;
                let rr = guard(|| rhooks::roundtrip_with_params(d, &v));
                if let Ok(Some(Ok(rt))) = rr {
                    // the reference itself must be consistent, otherwise it says nothing
                    if rt.reconstructed[..] != d[..rt.consumed] {
                        ctx.discard("reference does not reconstruct its own forced-hash output");
                        continue;
                    }
                    ctx.class(&format!("forced-hash:{}:reference-Ok", HASH_NAMES[ha as usize]));
                    reconstruct_with_current(&rt.plain_text, &rt.corrections, &d[..rt.consumed], &format!("forced-hash-{}", HASH_NAMES[ha as usize]))?;
                } else {
                    ctx.class(&format!("forced-hash:{}:reference-Err", HASH_NAMES[ha as usize]));
                }
            }
        }
    }
    Ok(())
}

pub fn check_file(f: &[u8], ctx: &mut Ctx, labels: &[String]) -> Result<(), Failure> {
    ctx.eval();
    if !versions_equal() {
        ctx.class("versions-differ:no-claim");
        return Ok(());
    }
    let e = match guard(|| preflate_ref::expand_zlib_chunks(f, 0)) {
        Ok(Ok(e)) => e,
        _ => {
            ctx.class("reference:expand-fails");
            return Ok(());
        }
    };
    match lib_recreate(&e) {
        Err(c) => {
            return Err(Failure::new(
                "C04",
                "panic",
                &format!("container:{}", c.site()),
                format!("current build panicked on a reference-written container: {} at {}", c.msg, c.location),
            ))
        }
        Ok(Err(er)) => {
            return Err(Failure::new(
                "C04",
                "recreate-err",
                &format!("container:{}", exit_code_name(er.code)),
                format!("current build rejects a reference-written container: {}", er.msg),
            ))
        }
        Ok(Ok(out)) => {
            if out != f {
                return Err(Failure::new(
                    "C04",
                    "mismatch",
                    "container:recreated-differs",
                    format!("current build recreates {} bytes from the reference's container, file has {}; first difference at {}", out.len(), f.len(), first_diff(&out, f)),
                ));
            }
        }
    }
    if let Ok((ls, nonlit)) = container_labels(&e) {
        if nonlit > 0 {
            ctx.nontrivial(fnv64(f));
        }
        for l in ls {
            ctx.class(&l);
        }
    }
    for l in labels {
        ctx.class(l);
    }
    Ok(())
}

fn eval_stream(dna_bytes: &[u8], ctx: &mut Ctx) -> Result<(), (Failure, Value)> {
    let mut dna = Dna::new(dna_bytes);
    let case = gen_stream(&mut dna, &MIX_C04);
    let doc = json!({"kind":"c04-stream","hex":hex(&case.bytes)});
    ctx.set_inflight(&doc);
    let mut labels = case.labels.clone();
    labels.push(format!("source:{}", case.source));
    let r = check_stream(&case.bytes, ctx, &labels);
    ctx.sample(|| sample_bytes(&case.desc, &case.bytes, json!({"source": case.source})));
    r.map_err(|f| (f, doc))
}

fn eval_file(dna_bytes: &[u8], ctx: &mut Ctx) -> Result<(), (Failure, Value)> {
    let mut dna = Dna::new(dna_bytes);
    let case = gen_file(&mut dna);
    let doc = json!({"kind":"c04-file","hex":hex(&case.bytes)});
    ctx.set_inflight(&doc);
    let r = check_file(&case.bytes, ctx, &case.labels);
    ctx.sample(|| sample_bytes(&case.desc, &case.bytes, json!({"kind": "file"})));
    r.map_err(|f| (f, doc))
}

fn worker(ctx: &mut Ctx) {
    let (ns, nf) = match ctx.cfg.tier {
        Tier::Quick => (14_000u64, 4_000u64),
        Tier::Thorough => (200_000u64, 40_000u64),
    };
    ctx.extra.insert(
        "versions".into(),
        json!({"current": format!("{:?}", chooks::format_versions()), "reference": format!("{:?}", rhooks::format_versions()),
               "versions_differ": !versions_equal()}),
    );
    let run = DnaRun { cases: ctx.cfg.share(ns), max_dna: 700, shrink_iters: 50, stream: 0 };
    if let Some((f, doc)) = run_dna(ctx, &run, eval_stream) {
        minimise_and_record(ctx, f, doc, 250, |cand, _doc, ctx| check_stream(cand, ctx, &[]));
    }
    let run = DnaRun { cases: ctx.cfg.share(nf), max_dna: 900, shrink_iters: 50, stream: 1 };
    if let Some((f, doc)) = run_dna(ctx, &run, eval_file) {
        minimise_and_record(ctx, f, doc, 250, |cand, _doc, ctx| check_file(cand, ctx, &[]));
    }
}

fn replay(doc: &Value, ctx: &mut Ctx) -> Result<(), Failure> {
    let data = doc_bytes(doc, "hex").ok_or_else(|| {
        Failure::new("C04", "harness", "bad-replay-doc", "replay document has no hex field".into())
    })?;
    if doc.get("kind").and_then(|k| k.as_str()) == Some("c04-file") {
        check_file(&data, ctx, &[])
    } else {
        check_stream(&data, ctx, &[])
    }
}
