//! C02 — stream split/reconstruct is bit-exact whenever the split succeeds

use super::common::*;
use super::PropDef;
use crate::dna::{fnv64, hex, Dna};
use crate::engine::*;
use crate::gen_stream::{gen_stream, MIX_DEFAULT};
use serde_json::{json, Value};

pub static DEF: PropDef = PropDef {
    id: "C02",
    level: "exploration",
    rule: "inputs D: raw DEFLATE from zlib / zlib-ng / libdeflate / miniz_oxide over structured random \
plaintexts (all levels, strategies, window and memory settings, mid-stream flushes and parameter switches), \
valid streams from an independent generator using the format's unused freedoms, mutations of both, noise; plus a \
deterministic family of 600 (thorough 6000) single-block streams with optimal dyadic codes whose run-length coded header has \
a repeat item running from the literal/length lengths into the distance lengths. \
Oracle per D: (a) verify=false and verify=true give the same Ok/Err status and, if Ok, the same (plain_text, \
corrections, compressed_size); (b) recompress_deflate_stream(plain, corrections) == D[..compressed_size]; \
(c) D[..size] alone and D[..size]+tail for two generated tails give the same triple. \
Non-trivial = accepted and containing at least one reference token or dynamic block; distinct = hash of D[..size].",
    assumptions: &[
        "release profile of the current /repo working tree",
        "a panic only counts as 'not Ok' here (panics are C05's subject)",
    ],
    worker,
    replay,
    exh: None,
    totality: false,
    aggregate: None,
};

fn status<T>(r: &Result<Result<T, LibErr>, Caught>) -> &'static str {
    match r {
        Ok(Ok(_)) => "Ok",
        Ok(Err(_)) => "Err",
        Err(_) => "panic",
    }
}

pub fn check(data: &[u8], tails: &[Vec<u8>], ctx: &mut Ctx, labels: &[String]) -> Result<(), Failure> {
    ctx.eval();
    for l in labels {
        ctx.class(l);
    }
    let rf = lib_split(data, false);
    let rt = lib_split(data, true);
    let src = labels
        .iter()
        .find(|l| l.starts_with("source:"))
        .cloned()
        .unwrap_or_else(|| "source:?".into());
    ctx.class(&format!("{}:verify=false:{}", src, status(&rf)));
    // (a) same status
    let ok_f = matches!(rf, Ok(Ok(_)));
    let ok_t = matches!(rt, Ok(Ok(_)));
    if ok_f != ok_t {
        let why = |r: &Result<Result<Split, LibErr>, Caught>| match r {
            Ok(Ok(_)) => "Ok".to_string(),
            Ok(Err(e)) => format!("Err({}: {})", exit_code_name(e.code), e.msg),
            Err(c) => format!("panic({} at {})", c.msg.lines().next().unwrap_or(""), c.location),
        };
        let site = match (&rf, &rt) {
            (Ok(Ok(_)), Ok(Err(e))) => format!("false=Ok,true=Err:{}", exit_code_name(e.code)),
            (Ok(Ok(_)), Err(c)) => format!("false=Ok,true=panic:{}", c.site()),
            (Ok(Err(e)), Ok(Ok(_))) => format!("false=Err:{},true=Ok", exit_code_name(e.code)),
            (Err(c), Ok(Ok(_))) => format!("false=panic:{},true=Ok", c.site()),
            _ => "other".into(),
        };
        return Err(Failure::new(
            "C02",
            "verify-flag-status",
            &site,
            format!("verify=false -> {}, verify=true -> {}", why(&rf), why(&rt)),
        ));
    }
    let (sf, st) = match (rf, rt) {
        (Ok(Ok(a)), Ok(Ok(b))) => (a, b),
        _ => {
            return Ok(());
        }
    };
    if sf != st {
        let what = if sf.plain != st.plain {
            "plain_text"
        } else if sf.size != st.size {
            "compressed_size"
        } else {
            "prediction_corrections"
        };
        return Err(Failure::new(
            "C02",
            "verify-flag-result",
            what,
            format!("verify=false and verify=true return different {}", what),
        ));
    }
    if sf.size > data.len() {
        return Err(Failure::new(
            "C02",
            "mismatch",
            "size>input",
            format!("compressed_size {} > input length {}", sf.size, data.len()),
        ));
    }
    // (b) exact reconstruction
    match lib_recompress(&sf.plain, &sf.corr) {
        Err(c) => {
            return Err(Failure::new(
                "C02",
                "recompress-panic",
                &c.site(),
                format!("accepted stream, recompress panicked: {} at {}", c.msg, c.location),
            ))
        }
        Ok(Err(e)) => {
            return Err(Failure::new(
                "C02",
                "recompress-err",
                exit_code_name(e.code),
                format!("accepted stream, recompress returned Err: {}", e.msg),
            ))
        }
        Ok(Ok(rec)) => {
            if rec[..] != data[..sf.size] {
                let first = rec
                    .iter()
                    .zip(data[..sf.size].iter())
                    .position(|(a, b)| a != b)
                    .unwrap_or(rec.len().min(sf.size));
                return Err(Failure::new(
                    "C02",
                    "mismatch",
                    "recompress!=input",
                    format!(
                        "accepted (verify=false) but reconstruction differs: len {} vs {}, first difference at byte {}",
                        rec.len(),
                        sf.size,
                        first
                    ),
                ));
            }
        }
    }
    ctx.class("accepted");
    // classification / non-triviality through the parser hook
    if let Ok(Ok(sum)) = lib_parse(data) {
        if has_refs_or_dynamic(&sum) {
            ctx.nontrivial(fnv64(&data[..sf.size]));
            ctx.class("accepted:nontrivial");
        }
        for l in summary_labels(&sum) {
            ctx.class(&format!("accepted:{}", l));
        }
        for l in labels.iter().filter(|l| l.starts_with("syn:")) {
            ctx.class(&format!("accepted:{}", l));
        }
    }
    // (c) dependence only on D[..size]
    let mut variants: Vec<(String, Vec<u8>)> = vec![];
    if sf.size < data.len() {
        variants.push(("prefix-only".into(), data[..sf.size].to_vec()));
    }
    for (i, t) in tails.iter().enumerate() {
        let mut v = data[..sf.size].to_vec();
        v.extend_from_slice(t);
        if v != data {
            variants.push((format!("tail{}", i), v));
        }
    }
    for (name, v) in variants {
        match lib_split(&v, false) {
            Ok(Ok(s2)) => {
                if s2 != sf {
                    return Err(Failure::new(
                        "C02",
                        "tail-dependence",
                        "different-result",
                        format!("variant {} of the bytes after compressed_size changes the result", name),
                    ));
                }
            }
            other => {
                return Err(Failure::new(
                    "C02",
                    "tail-dependence",
                    &format!("status:{}", status(&other)),
                    format!("variant {}: stream accepted before is now {}", name, status(&other)),
                ));
            }
        }
        ctx.class("tail-variants-checked");
    }
    Ok(())
}

fn make_doc(data: &[u8], tails: &[Vec<u8>]) -> Value {
    json!({"kind":"bytes","hex":hex(data),"tails":tails.iter().map(|t| hex(t)).collect::<Vec<_>>()})
}

fn eval_dna(dna_bytes: &[u8], ctx: &mut Ctx) -> Result<(), (Failure, Value)> {
    let mut dna = Dna::new(dna_bytes);
    let case = gen_stream(&mut dna, &MIX_DEFAULT);
    let n1 = dna.range(1, 12);
    let t1 = dna.bytes(n1);
    let t2 = vec![0u8; dna.range(1, 4)];
    let tails = vec![t1, t2];
    let doc = make_doc(&case.bytes, &tails);
    ctx.set_inflight(&doc);
    let mut labels = case.labels.clone();
    labels.push(format!("source:{}", case.source));
    let r = check(&case.bytes, &tails, ctx, &labels);
    ctx.sample(|| sample_bytes(&case.desc, &case.bytes, json!({"source": case.source})));
    r.map_err(|f| (f, doc))
}

fn doc_tails(doc: &Value) -> Vec<Vec<u8>> {
    doc.get("tails")
        .and_then(|t| t.as_array())
        .map(|a| {
            a.iter()
                .filter_map(|x| x.as_str().and_then(crate::dna::unhex))
                .collect()
        })
        .unwrap_or_default()
}

fn worker(ctx: &mut Ctx) {
    let cases = match ctx.cfg.tier {
        Tier::Quick => 25_000u64,
        Tier::Thorough => 300_000u64,
    };
    let run = DnaRun {
        cases: ctx.cfg.share(cases),
        max_dna: 700,
        shrink_iters: 300,
        stream: 0,
    };
    // deterministic family: blocks with optimal (dyadic) codes whose header has a repeat item
    // running from the literal/length lengths into the distance lengths
    let nvar: u64 = match ctx.cfg.tier {
        Tier::Quick => 600,
        Tier::Thorough => 6000,
    };
    for v in 0..nvar {
        if v % ctx.cfg.nshards as u64 != ctx.cfg.shard as u64 {
            continue;
        }
        if let Some((stream, _plain, _desc)) = crate::gen_syn::boundary_run_stream(v) {
            let tails = vec![vec![0xA5u8, 0x5A, 0xFF], vec![0u8]];
            let doc = make_doc(&stream, &tails);
            ctx.set_inflight(&doc);
            let labels = vec!["syn:boundary-run(dyadic)".to_string()];
            if let Err(f) = check(&stream, &tails, ctx, &labels) {
                if !ctx.is_known(&f) {
                    ctx.record_failure(&f, &doc);
                }
                break;
            }
        }
    }
    if let Some((f, doc)) = run_dna(ctx, &run, eval_dna) {
        minimise_and_record(ctx, f, doc, 3000, |cand, doc, ctx| {
            check(cand, &doc_tails(doc), ctx, &[])
        });
    }
}

fn replay(doc: &Value, ctx: &mut Ctx) -> Result<(), Failure> {
    let data = doc_bytes(doc, "hex").ok_or_else(|| {
        Failure::new("C02", "harness", "bad-replay-doc", "replay document has no hex field".into())
    })?;
    let mut tails = doc_tails(doc);
    if tails.is_empty() {
        tails = vec![vec![0xA5, 0x5A, 0xFF], vec![0]];
    }
    check(&data, &tails, ctx, &[])
}
