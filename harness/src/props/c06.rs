//! C06 — embedded streams in supported wrappers are found and expanded, not copied

use super::common::*;
use super::PropDef;
use crate::dna::{fnv64, hex, Dna, Mix};
use crate::engine::*;
use crate::gen_file::*;
use crate::model_container::*;
use serde_json::{json, Value};

pub static DEF: PropDef = PropDef {
    id: "C06",
    level: "exploration",
    rule: "cases: a raw DEFLATE stream S (real compressors and the independent generator; plaintext 1025 B..40 KiB, \
band 1025..1100 over-sampled) that decompress_deflate_stream(S, true) accepts on its own (otherwise discarded, counted), \
wrapped as zlib (4 headers) / gzip (16 optional-field subsets, random field contents, odd XLEN) / ZIP local file with \
method 8 (name/extra 0..300, names in ASCII, legacy code pages, multi-byte UTF-8 or arbitrary bytes, data descriptor, central directory, Zip64 records of 8/16/24/28 bytes with masked 32-bit sizes) / PNG IDAT run (1..40 chunks, IDAT total > 1024 bytes), \
between junk that cannot start a signature; the diagnostics level passed to expand_zlib_chunks is 0 for 13 files in 16, else 1, 2 or 9 (a function of the file). Oracle: my own container model finds a DEFLATE/PNG chunk in \
expand_zlib_chunks(F) whose plaintext equals S's plaintext; on a miss the case is discarded (counted) if another expanded \
chunk overlaps S, else it is a violation; round trip is asserted as well. Non-trivial = every kept case; distinct = hash of F.",
    assumptions: &[
        "junk bytes exclude 0x78, 0x50, 0x1F, 0x49 so that no probe can start inside junk",
        "the container model's reading of the expanded form (DESIGN.md A.4)",
    ],
    worker,
    replay,
    exh: None,
    totality: false,
    aggregate: None,
};

/// doc: {hex: file, plain_hex: S plaintext, s_start, s_len, wrapper, variant}
pub fn check(
    f: &[u8],
    s_plain: &[u8],
    s_start: usize,
    s_len: usize,
    wrapper: &str,
    variant_class: &str,
    ctx: &mut Ctx,
) -> Result<(), Failure> {
    ctx.eval();
    let e = match lib_expand(f) {
        Ok(Ok(e)) => e,
        Ok(Err(er)) => {
            return Err(Failure::new("C06", "expand-err", exit_code_name(er.code), er.msg));
        }
        Err(c) => return Err(panic_failure("C06", "expand_zlib_chunks", &c)),
    };
    let chunks = match parse_container(&e) {
        Ok(c) => c,
        Err(why) => {
            ctx.discard(&format!("harness: container model failed: {}", why));
            return Ok(());
        }
    };
    let found = chunks.iter().any(|c| {
        c.kind != ChunkKind::Literal && &e[c.data_off..c.data_off + c.data_len] == s_plain
    });
    // round trip
    match lib_recreate(&e) {
        Ok(Ok(out)) if out == f => {}
        Ok(Ok(_)) => {
            return Err(Failure::new("C06", "mismatch", "recreate!=input", "round trip changed the file".into()))
        }
        Ok(Err(er)) => {
            return Err(Failure::new("C06", "recreate-err", exit_code_name(er.code), er.msg));
        }
        Err(c) => return Err(panic_failure("C06", "recreated_zlib_chunks", &c)),
    }
    if found {
        ctx.nontrivial(fnv64(f));
        ctx.class(&format!("found:{}", wrapper));
        ctx.class(&format!("found:{}:{}", wrapper, variant_class));
        if s_plain.len() <= 1100 {
            ctx.class("found:plain-1025..1100");
        }
        return Ok(());
    }
    // miss: is there another expanded chunk overlapping S?
    let ext = file_extents(&e, &chunks, &|p, c| match lib_recompress(p, c) {
        Ok(Ok(v)) => Some(v.len()),
        _ => None,
    });
    match ext {
        None => {
            ctx.discard("harness: extents not computable");
            Ok(())
        }
        Some(ext) => {
            let overlap = chunks.iter().zip(ext.iter()).any(|(c, &(off, len))| {
                c.kind != ChunkKind::Literal && off < s_start + s_len && s_start < off + len
            });
            if overlap {
                ctx.discard("another accepted stream overlaps S (precondition of the property not met)");
                Ok(())
            } else {
                Err(Failure::new(
                    "C06",
                    "not-found",
                    &format!("{}:{}", wrapper, variant_class),
                    format!(
                        "stream of {} bytes (plaintext {}) embedded as {} at {} was copied as literal data",
                        s_len,
                        s_plain.len(),
                        wrapper,
                        s_start
                    ),
                ))
            }
        }
    }
}

struct Built {
    file: Vec<u8>,
    plain: Vec<u8>,
    s_start: usize,
    s_len: usize,
    wrapper: &'static str,
    variant_class: String,
    desc: String,
}

fn gzip_class(flags: u8) -> String {
    let mut s = String::new();
    if flags & 4 != 0 {
        s.push_str("X");
    }
    if flags & 8 != 0 {
        s.push_str("N");
    }
    if flags & 16 != 0 {
        s.push_str("C");
    }
    if flags & 2 != 0 {
        s.push_str("H");
    }
    if s.is_empty() {
        s.push_str("none");
    }
    format!("fields={}", s)
}

fn build(dna: &mut Dna, ctx: &mut Ctx) -> Option<Built> {
    // structural choices first, so that they do not depend on how much DNA the stream eats
    let wsel = dna.weighted(&[25, 25, 25, 25]);
    let zh = ZLIB_HEADERS[dna.below(4)];
    let gz = gen_gzip_opts(dna);
    let zo = gen_zip_opts(dna);
    let mut po = gen_png_opts(dna, 6000, false);
    let mut out = junk(dna, true, 200);
    // the embedded stream's first byte (for PNG: the first IDAT length field) is placed within a
    // few bytes of a power-of-two file offset (64 KiB, 1 MiB, 4 MiB, 8 MiB); applied further down
    let pow2_target: Option<usize> = if dna.chance(3) {
        let k = [16usize, 20, 22, 23][dna.below(4)];
        let dd = dna.range(0, 12) as i64 - 6;
        Some(((1i64 << k) + dd) as usize)
    } else {
        None
    };
    let suffix_n = dna.range(0, 200);
    let mut m = Mix::new(dna.u64());
    // pair mode: another accepted stream sits directly in front, its zlib trailer missing or cut
    // to 0..3 bytes, so that the wrapper of S starts right after that stream's deflate data
    let lookalike_prefix = dna.chance(20);
    let lookalike_dna = dna.bytes(12);
    // nesting: the whole wrapper sits inside a STORED (method 0) zip member with a consistent header
    let nest_in_stored_zip = dna.chance(10);
    let nest_name_len = dna.range(0, 24);
    let junk_idat_in_front = if dna.chance(8) { dna.range(1, 3) } else { 0 };
    let pair = dna.chance(25);
    let pair_gap = dna.below(9);
    let pair_size = dna.range(1025, 3000);
    let size = match dna.weighted(&[30, 50, 20]) {
        0 => dna.range(1025, 1100),
        1 => dna.range(1100, 8 * 1024),
        _ => dna.range(8 * 1024, 40 * 1024),
    };
    let (stream, plain, sdesc) = gen_embedded_stream(dna, true, size);
    if plain.len() <= 1024 {
        ctx.discard("S has <= 1024 bytes of plaintext");
        return None;
    }
    match lib_split(&stream, true) {
        Ok(Ok(r)) if r.size == stream.len() => {}
        _ => {
            ctx.discard("S is not accepted by decompress_deflate_stream on its own");
            return None;
        }
    }
    // the bytes in front may also be a signature look-alike (e.g. a well-formed IDAT chunk with
    // non-deflate data, a PK header with wild fields, a gzip header start)
    if lookalike_prefix {
        let mut la = Vec::new();
        let mut sub = Dna::new(&lookalike_dna);
        let kind = crate::gen_file::lookalike_pub(&mut sub, &mut la);
        out.extend_from_slice(&la);
        ctx.class(&format!("prefix-lookalike:{}", kind));
    }
    let nest_start = out.len();
    let mut pair_note = "";
    if pair {
        let (s0, p0, _d0) = gen_embedded_stream(dna, false, pair_size);
        if p0.len() > 1024 && matches!(lib_split(&s0, true), Ok(Ok(ref r)) if r.size == s0.len()) {
            out.extend_from_slice(&[0x78, 0x9c]);
            out.extend_from_slice(&s0);
            out.extend((0..pair_gap).map(|_| safe_junk_byte(&mut m)));
            pair_note = "after-adjacent-stream:";
            ctx.class(&format!("pair:gap{}", pair_gap));
        }
    }
    let (wrapper, variant_class, (s_start, s_len)) = match wsel {
        0 => ("zlib", format!("{:02x}{:02x}", zh[0], zh[1]), wrap_zlib(&mut out, zh, &stream, &plain)),
        1 => ("gzip", gzip_class(gz.flags), wrap_gzip(&mut out, &gz, &stream, &plain, &mut m)),
        2 => (
            "zip",
            format!(
                "name{}-extra{}-dd{}{}",
                if zo.name_len == 0 { "0" } else { "+" },
                if zo.extra_len == 0 { "0" } else { "+" },
                zo.data_descriptor as u8,
                if zo.zip64 != 0 && !zo.data_descriptor { format!("-zip64rec{}", [16, 8, 24, 28][(zo.zip64 as usize - 1) % 4]) } else { String::new() }
            ),
            wrap_zip(&mut out, &zo, &stream, &plain, &mut m),
        ),
        _ => {
            // C06 domain: plain chunkings of exactly hdr + S + adler32
            po.gap.clear();
            po.foreign_after = None;
            if junk_idat_in_front > 0 {
                // well-formed IDAT chunks (correct CRC) with non-deflate data directly in front of
                // the real run: the scanner first tries the longer run, must reject it and then
                // still find the real one
                po.signature = false;
                po.ihdr = false;
                for _ in 0..junk_idat_in_front {
                    let n = m.range(1, 40);
                    let d: Vec<u8> = (0..n).map(|_| safe_junk_byte(&mut m)).collect();
                    out.extend_from_slice(&(d.len() as u32).to_be_bytes());
                    out.extend_from_slice(b"IDAT");
                    out.extend_from_slice(&d);
                    let mut h = crc32fast::Hasher::new();
                    h.update(b"IDAT");
                    h.update(&d);
                    out.extend_from_slice(&h.finalize().to_be_bytes());
                }
                ctx.class("png:junk-idat-chunks-in-front");
            }
            po.trailing = (0..po.trailing.len()).map(|_| safe_junk_byte(&mut m)).collect();
            let vc = if po.cuts.is_empty() { "single-chunk".to_string() } else { "multi-chunk".to_string() };
            // effective chunk sizes as wrap_png will produce them
            let payload = stream.len() + 6;
            let mut rem = payload;
            let mut zero = false;
            for &c in &po.cuts {
                let c = c.min(rem);
                if c == 0 {
                    zero = true;
                }
                rem -= c;
            }
            if rem == 0 {
                zero = true;
            }
            if zero {
                // zero-length chunks are a recorded known finding: excluded by construction
                ctx.discard("excluded: zero-length IDAT chunk (known finding, probed separately)");
                return None;
            }
            let (s, l) = wrap_png(&mut out, &po, &stream, &plain);
            if l <= 1024 {
                ctx.discard("PNG IDAT chunks total <= 1024 bytes (outside the property)");
                return None;
            }
            ("png", vc, (s, l))
        }
    };
    let (mut s_start, s_len) = (s_start, s_len);
    let mut nest_note = "";
    if nest_in_stored_zip {
        // wrap out[nest_start..] as the data of a stored zip member
        let member: Vec<u8> = out[nest_start..].to_vec();
        out.truncate(nest_start);
        let name: Vec<u8> = (0..nest_name_len).map(|_| b'a' + (m.below(26) as u8)).collect();
        out.extend_from_slice(&0x04034b50u32.to_le_bytes());
        out.extend_from_slice(&[20, 0, 0, 0, 0, 0]); // version, flags, method 0 (stored)
        out.extend_from_slice(&[0; 4]);
        out.extend_from_slice(&crc32fast::hash(&member).to_le_bytes());
        out.extend_from_slice(&(member.len() as u32).to_le_bytes());
        out.extend_from_slice(&(member.len() as u32).to_le_bytes());
        out.extend_from_slice(&(name.len() as u16).to_le_bytes());
        out.extend_from_slice(&0u16.to_le_bytes());
        out.extend_from_slice(&name);
        s_start += out.len() - nest_start;
        out.extend_from_slice(&member);
        nest_note = "in-stored-zip-member:";
        ctx.class("nested:in-stored-zip-member");
    }
    if let Some(target) = pow2_target {
        if target > s_start {
            // prepend safe junk so that s_start == target
            let add = target - s_start;
            let mut pre: Vec<u8> = Vec::with_capacity(add + out.len());
            pre.extend((0..add).map(|_| safe_junk_byte(&mut m)));
            pre.extend_from_slice(&out);
            out = pre;
            s_start = target;
            ctx.class("stream-start:near-power-of-two-offset");
        }
    }
    out.extend((0..suffix_n).map(|_| safe_junk_byte(&mut m)));
    let variant_class = format!("{}{}{}", nest_note, pair_note, variant_class);
    Some(Built {
        desc: format!("{} {} around [{}] plain={}", wrapper, variant_class, sdesc, plain.len()),
        file: out,
        plain,
        s_start,
        s_len,
        wrapper,
        variant_class,
    })
}

/// deterministic PNG with a zero-length IDAT chunk in the middle of the run
fn build_zero_chunk_probe(k: u64) -> Option<Built> {
    use crate::gen_comp::{zlib_deflate_raw, ZCfg};
    let mut m = Mix::new(0x2E80 + k);
    // 64-symbol alphabet with repeated phrases: compresses, but stays well above 1 KiB
    let mut plain = Vec::new();
    while plain.len() < 5000 + 500 * k as usize {
        if plain.len() > 100 && m.chance(30) {
            let d = m.range(1, plain.len().min(2000));
            let l = m.range(3, 40);
            for i in 0..l {
                let b = plain[plain.len() - d + (i % d)];
                plain.push(b);
            }
        } else {
            plain.push(b'0' + m.below(64) as u8);
        }
    }
    let stream = zlib_deflate_raw(&plain, &ZCfg::simple(6))?;
    match lib_split(&stream, true) {
        Ok(Ok(r)) if r.size == stream.len() => {}
        _ => return None,
    }
    let mut out = vec![0x89, b'P', b'N', b'G', 0x0d, 0x0a, 0x1a, 0x0a];
    let o = PngOpts {
        foreign_after: None,
        signature: false,
        ihdr: true,
        // the first chunk holds only the first zlib header byte, so no 78 xx signature is
        // adjacent in the file and the only way to find S is the IDAT run itself
        cuts: vec![1, 0],
        gap: vec![],
        ending: 0,
        trailing: vec![],
        hdr: ZLIB_HEADERS[(k % 4) as usize],
    };
    let (s, l) = wrap_png(&mut out, &o, &stream, &plain);
    if l <= 1024 {
        return None;
    }
    Some(Built {
        desc: "probe: PNG with a zero-length IDAT chunk inside the run".into(),
        file: out,
        plain,
        s_start: s,
        s_len: l,
        wrapper: "png",
        variant_class: "zero-length-chunk".into(),
    })
}

fn make_doc(b: &Built) -> Value {
    json!({"kind":"c06","hex":hex(&b.file),"plain_hex":hex(&b.plain),"s_start":b.s_start,"s_len":b.s_len,
           "wrapper":b.wrapper,"variant":b.variant_class})
}

fn eval_dna(dna_bytes: &[u8], ctx: &mut Ctx) -> Result<(), (Failure, Value)> {
    let mut dna = Dna::new(dna_bytes);
    let b = match build(&mut dna, ctx) {
        Some(b) => b,
        None => return Ok(()),
    };
    let doc = make_doc(&b);
    ctx.set_inflight(&doc);
    let r = check(&b.file, &b.plain, b.s_start, b.s_len, b.wrapper, &b.variant_class, ctx);
    ctx.sample(|| sample_bytes(&b.desc, &b.file, json!({"wrapper": b.wrapper, "variant": b.variant_class})));
    r.map_err(|f| (f, doc))
}

fn worker(ctx: &mut Ctx) {
    let cases = match ctx.cfg.tier {
        Tier::Quick => 40_000u64,
        Tier::Thorough => 600_000u64,
    };
    // fixed probes of the recorded known finding (zero-length IDAT chunk), shard 0 only
    if ctx.cfg.shard == 0 {
        for k in 0..4u64 {
            if let Some(b) = build_zero_chunk_probe(k) {
                let doc = make_doc(&b);
                if std::env::var("PFV_DUMP_PROBE").is_ok() {
                    let _ = std::fs::write(format!("/tmp/c06probe{}.json", k), doc.to_string());
                }
                ctx.set_inflight(&doc);
                if let Err(f) = check(&b.file, &b.plain, b.s_start, b.s_len, b.wrapper, &b.variant_class, ctx) {
                    if !ctx.is_known(&f) {
                        ctx.record_failure(&f, &doc);
                    }
                }
                ctx.class("probe:zero-length-idat-chunk");
            }
        }
    }
    let run = DnaRun {
        cases: ctx.cfg.share(cases),
        max_dna: 600,
        shrink_iters: 200,
        stream: 0,
    };
    if let Some((f, doc)) = run_dna(ctx, &run, eval_dna) {
        ctx.record_failure(&f, &doc);
    }
}

fn replay(doc: &Value, ctx: &mut Ctx) -> Result<(), Failure> {
    let bad = || Failure::new("C06", "harness", "bad-replay-doc", "replay document incomplete".into());
    let f = doc_bytes(doc, "hex").ok_or_else(bad)?;
    let plain = doc_bytes(doc, "plain_hex").ok_or_else(bad)?;
    let s_start = doc.get("s_start").and_then(|v| v.as_u64()).ok_or_else(bad)? as usize;
    let s_len = doc.get("s_len").and_then(|v| v.as_u64()).ok_or_else(bad)? as usize;
    let wrapper = doc.get("wrapper").and_then(|v| v.as_str()).unwrap_or("?").to_string();
    let variant = doc.get("variant").and_then(|v| v.as_str()).unwrap_or("?").to_string();
    check(&f, &plain, s_start, s_len, &wrapper, &variant, ctx)
}
