//! C12 — C ABI wrappers respect caller buffers, report status, and round-trip

use super::common::*;
use super::PropDef;
use crate::dna::{fnv64, hex, Dna};
use crate::engine::*;
use crate::gen_file::gen_file_opts;
use serde_json::{json, Value};

pub static DEF: PropDef = PropDef {
    id: "C12",
    level: "exploration",
    rule: "cases: files F from the container generator, 36 deterministic tiny files (0..12 bytes, the empty file included) and arbitrary bytes x output capacity in {0, 1, need-1, need, \
need+1, bound, bound+k} for WrapperCompressZip (plus one 96 MiB file, four sizes up to 127 MiB in the thorough tier, whose expanded form lies in the upper half of the 128 MiB limit) and {0, 1, |F|-1, |F|, |F|+1, |F|+k, and up to seven undersized capacities that end exactly at a write boundary of the reconstruction} for WrapperDecompressZip (need = size \
produced with an ample buffer, bound = ZSTD_compressBound(|expanded|)); also arbitrary bytes as decompress input. Oracle: \
output buffers are carved out of a larger allocation with 4 KiB guard bands of a known pattern on both sides and \
*result_size pre-set to a sentinel; after each call the guards are intact, status 0 implies \
*result_size <= capacity and the bytes are valid (compress: they decompress back to F through the other wrapper; \
decompress: they equal F); decompress: capacity < |F| => negative, capacity >= |F| => 0; compress: capacity >= bound => 0. \
An unwind out of the extern \"C\" function aborts the worker process and is reported by the driver. \
Non-trivial = F with at least one expanded stream; distinct = hash of F.",
    assumptions: &[
        "null / misaligned / overlapping pointers are out of reach; the 128 MiB bound is probed from below only (up to 127 MiB)",
        "zstd may refuse exact-fit output buffers, so success is only demanded from ZSTD_compressBound upwards",
    ],
    worker,
    replay,
    exh: None,
    totality: true,
    aggregate: None,
};

const GUARD: usize = 4096;
const PAT: u8 = 0xA7;
const SENTINEL: u64 = 0xDEAD_BEEF_DEAD_BEEF;

struct CallResult {
    status: i32,
    result_size: u64,
    out: Vec<u8>,
    guards_ok: bool,
    damage: String,
}

fn call(compress: bool, input: &[u8], cap: usize) -> CallResult {
    let mut buf = vec![PAT; GUARD + cap + GUARD];
    let mut result_size: u64 = SENTINEL;
    let status = unsafe {
        let out_ptr = buf.as_mut_ptr().add(GUARD);
        if compress {
            preflate_rs::WrapperCompressZip(input.as_ptr(), input.len() as u64, out_ptr, cap as u64, &mut result_size)
        } else {
            preflate_rs::WrapperDecompressZip(input.as_ptr(), input.len() as u64, out_ptr, cap as u64, &mut result_size)
        }
    };
    let mut damage = String::new();
    if let Some(p) = buf[..GUARD].iter().position(|&b| b != PAT) {
        damage = format!("byte {} before the buffer", GUARD - p);
    } else if let Some(p) = buf[GUARD + cap..].iter().position(|&b| b != PAT) {
        damage = format!("byte {} after the buffer", p);
    }
    CallResult {
        status,
        result_size,
        out: buf[GUARD..GUARD + cap].to_vec(),
        guards_ok: damage.is_empty(),
        damage,
    }
}

fn basic(r: &CallResult, which: &str, cap: usize) -> Result<(), Failure> {
    if !r.guards_ok {
        return Err(Failure::new(
            "C12",
            "guard-damaged",
            which,
            format!("{} with capacity {} wrote outside the output buffer: {}", which, cap, r.damage),
        ));
    }
    // The property fixes the meaning of 0 and of "negative"; it does not fix the set of negative
    // codes, so any value is accepted here and judged where the property says what it must be.
    if r.status == 0 {
        if r.result_size == SENTINEL {
            return Err(Failure::new(
                "C12",
                "wrong-status",
                &format!("{}:result_size-not-set", which),
                format!("{} returned 0 without setting *result_size (capacity {})", which, cap),
            ));
        }
        if r.result_size > cap as u64 {
            return Err(Failure::new(
                "C12",
                "wrong-status",
                &format!("{}:result_size>capacity", which),
                format!("{} returned 0 with *result_size {} > capacity {}", which, r.result_size, cap),
            ));
        }
    }
    Ok(())
}

/// cumulative output sizes after each write call of the reconstruction (Rust API, in-memory):
/// used only to CHOOSE capacities, never as an oracle
fn recreate_write_marks(container: &[u8]) -> Vec<usize> {
    struct Rec {
        total: usize,
        marks: Vec<usize>,
    }
    impl std::io::Write for Rec {
        fn write(&mut self, b: &[u8]) -> std::io::Result<usize> {
            self.total += b.len();
            if self.marks.len() < 100_000 {
                self.marks.push(self.total);
            }
            Ok(b.len())
        }
        fn flush(&mut self) -> std::io::Result<()> {
            Ok(())
        }
    }
    let r = guard(|| {
        let mut rec = Rec { total: 0, marks: vec![] };
        let mut cur = std::io::Cursor::new(container);
        let _ = preflate_rs::recreated_zlib_chunks(&mut cur, &mut rec);
        rec.marks
    });
    let mut m = r.unwrap_or_default();
    m.dedup();
    m
}

pub fn check(f: &[u8], k: usize, ctx: &mut Ctx) -> Result<(), Failure> {
    ctx.eval();
    let mut write_marks: Vec<usize> = vec![];
    let elen = match lib_expand(f) {
        Ok(Ok(e)) => {
            write_marks = recreate_write_marks(&e);
            if let Ok((ls, nonlit)) = container_labels(&e) {
                if nonlit > 0 {
                    ctx.nontrivial(fnv64(f));
                }
                for l in ls {
                    ctx.class(&l);
                }
            }
            e.len()
        }
        _ => {
            ctx.discard("expand_zlib_chunks failed or panicked (C01's subject)");
            return Ok(());
        }
    };
    let bound = zstd::zstd_safe::compress_bound(elen);
    // ample buffer first
    let ample = call(true, f, bound + 1024);
    basic(&ample, "compress", bound + 1024)?;
    if ample.status != 0 {
        return Err(Failure::new(
            "C12",
            "wrong-status",
            "compress:fails-with-ample-buffer",
            format!("WrapperCompressZip returned {} with capacity compressBound+1024", ample.status),
        ));
    }
    let need = ample.result_size as usize;
    let compressed = ample.out[..need].to_vec();

    // decompress with capacities around |F|
    let n = f.len();
    let mut dcaps = vec![0, 1, n.saturating_sub(1), n, n + 1, n + k];
    // undersized capacities that end exactly where one of the reconstruction's writes ends
    // (header / stream / chunk boundaries): first two, last two and three picked by k
    let marks: Vec<usize> = write_marks.iter().copied().filter(|&m| m > 1 && m + 1 < n).collect();
    if !marks.is_empty() {
        let l = marks.len();
        for idx in [0, 1.min(l - 1), l - 1, l.saturating_sub(2), (k * 7919) % l, (k * 104_729 + 1) % l, (k * 1_299_709 + 2) % l] {
            dcaps.push(marks[idx]);
        }
        ctx.class("decompress:capacity-at-a-write-boundary");
    }
    dcaps.sort();
    dcaps.dedup();
    for cap in dcaps {
        let r = call(false, &compressed, cap);
        basic(&r, "decompress", cap)?;
        if cap < n {
            if r.status >= 0 {
                return Err(Failure::new(
                    "C12",
                    "wrong-status",
                    if r.status == 0 { "decompress:0-with-undersized-buffer" } else { "decompress:positive-with-undersized-buffer" },
                    format!("capacity {} < file size {} but status {} (result_size {})", cap, n, r.status, r.result_size),
                ));
            }
            ctx.class("decompress:undersized:negative");
        } else {
            if r.status != 0 {
                return Err(Failure::new(
                    "C12",
                    "wrong-status",
                    "decompress:fails-with-sufficient-buffer",
                    format!("capacity {} >= file size {} but status {}", cap, n, r.status),
                ));
            }
            if r.result_size as usize != n || r.out[..n] != f[..] {
                return Err(Failure::new(
                    "C12",
                    "mismatch",
                    "decompress:roundtrip",
                    format!("round trip through the two wrappers changed the file (result_size {}, file {})", r.result_size, n),
                ));
            }
            ctx.class("decompress:sufficient:roundtrip-ok");
        }
    }
    // compress with capacities around need / bound
    let mut ccaps = vec![0, 1, need.saturating_sub(1), need, need + 1, bound, bound + k];
    ccaps.sort();
    ccaps.dedup();
    for cap in ccaps {
        let r = call(true, f, cap);
        basic(&r, "compress", cap)?;
        if cap >= bound && r.status != 0 {
            return Err(Failure::new(
                "C12",
                "wrong-status",
                "compress:fails-at-compressBound",
                format!("capacity {} >= compressBound {} but status {}", cap, bound, r.status),
            ));
        }
        if r.status == 0 {
            // whatever was produced must decompress back to F
            let back = call(false, &r.out[..r.result_size as usize], n + 16);
            basic(&back, "decompress", n + 16)?;
            if back.status != 0 || back.result_size as usize != n || back.out[..n] != f[..] {
                return Err(Failure::new(
                    "C12",
                    "mismatch",
                    "compress:output-not-valid",
                    format!("compress returned 0 with capacity {} but its {} bytes do not decompress back to the file (status {})", cap, r.result_size, back.status),
                ));
            }
            ctx.class(if cap < need { "compress:below-need:0-and-valid" } else { "compress:0-and-valid" });
        } else {
            ctx.class(if cap < need { "compress:undersized:negative" } else { "compress:exact-fit-refused" });
        }
    }
    Ok(())
}

/// arbitrary bytes as decompress input: only the memory / status invariants apply
pub fn check_garbage(data: &[u8], cap: usize, ctx: &mut Ctx) -> Result<(), Failure> {
    ctx.eval();
    let r = call(false, data, cap);
    basic(&r, "decompress", cap)?;
    ctx.class(&format!("decompress-garbage:status{}", r.status));
    Ok(())
}

/// a well-formed zstd frame whose content is a tiny malformed container: WrapperDecompressZip
/// may panic internally, which must be reported as a status and must not affect later calls
fn damaged_container_frame(dna: &mut Dna) -> Option<Vec<u8>> {
    // Only tiny hand-made containers whose outcome is quick and known (an internal panic mapped
    // to -2, or a clean error). Arbitrarily damaged containers are NOT used: they are outside the
    // property (decompress input is compress output) and the reconstruction of a damaged
    // container can run away (observed: an endless block loop that allocated 60 GB).
    let e: Vec<u8> = match dna.below(4) {
        0 => vec![1, 1, 0, 0],
        1 => vec![1, 2, 0, 0x78, 0x9c, 0, 0, 0, 0, 0, 0],
        2 => vec![1, 0, 0x80],
        _ => vec![2, 0, 0],
    };
    zstd::bulk::compress(&e, 3).ok()
}

fn eval_dna(dna_bytes: &[u8], ctx: &mut Ctx) -> Result<(), (Failure, Value)> {
    let mut dna = Dna::new(dna_bytes);
    if dna.chance(12) {
        let cap = dna.range(0, 6000);
        if let Some(frame) = damaged_container_frame(&mut dna) {
            let doc = json!({"kind":"c12-garbage","hex":hex(&frame),"cap":cap,"what":"zstd frame of a damaged container"});
            ctx.set_inflight(&doc);
            ctx.class("decompress-input:frame-of-damaged-container");
            return check_garbage(&frame, cap, ctx).map_err(|f| (f, doc));
        }
    }
    if dna.chance(15) {
        let n = dna.range(0, 300);
        let cap = dna.range(0, 5000);
        let data = dna.bytes(n);
        let doc = json!({"kind":"c12-garbage","hex":hex(&data),"cap":cap});
        ctx.set_inflight(&doc);
        return check_garbage(&data, cap, ctx).map_err(|f| (f, doc));
    }
    let k = dna.range(2, 3000);
    let case = if dna.chance(15) {
        // arbitrary (non-container) bytes as compress input
        let n = dna.range(0, 2000);
        let mut m = crate::dna::Mix::new(dna.u64());
        crate::gen_file::FileCase {
            bytes: (0..n).map(|_| m.u8()).collect(),
            desc: "arbitrary bytes".into(),
            labels: vec!["input:arbitrary-bytes".into()],
            embedded: vec![],
            mutated: false,
        }
    } else {
        gen_file_opts(&mut dna, true)
    };
    let doc = json!({"kind":"c12-file","hex":hex(&case.bytes),"k":k});
    ctx.set_inflight(&doc);
    for l in &case.labels {
        ctx.class(l);
    }
    let r = check(&case.bytes, k, ctx);
    ctx.sample(|| sample_bytes(&case.desc, &case.bytes, json!({"k": k})));
    r.map_err(|f| (f, doc))
}

/// files whose expanded form lies in the upper half of the 128 MiB limit the decompress wrapper
/// allows (a few MiB of incompressible bytes followed by zeros, no DEFLATE content)
fn big_file(total_mib: usize, noise_kib: usize, seed: u64) -> Vec<u8> {
    let mut m = crate::dna::Mix::new(seed);
    let mut v: Vec<u8> = Vec::with_capacity(total_mib << 20);
    for _ in 0..(noise_kib << 10) {
        v.push(crate::gen_file::safe_junk_byte(&mut m));
    }
    v.resize(total_mib << 20, 0);
    v
}

fn big_probes(ctx: &mut Ctx) {
    let sizes: &[(usize, usize)] = match ctx.cfg.tier {
        Tier::Quick => &[(96, 2560)],
        Tier::Thorough => &[(66, 300), (96, 2560), (120, 5000), (127, 64)],
    };
    for (i, &(mib, noise)) in sizes.iter().enumerate() {
        if (i as u32 + 1) % ctx.cfg.nshards != ctx.cfg.shard {
            continue;
        }
        let f = big_file(mib, noise, 0xB16 + i as u64);
        let doc = json!({"kind":"c12-big","mib":mib,"noise_kib":noise,"seed":0xB16 + i as u64});
        ctx.set_inflight(&doc);
        ctx.class("big-file:expanded-form-in-64..128MiB");
        if let Err(fl) = check(&f, 7, ctx) {
            if !ctx.is_known(&fl) {
                ctx.record_failure(&fl, &doc);
            }
        }
    }
}

fn worker(ctx: &mut Ctx) {
    big_probes(ctx);
    // deterministic tiny files (the empty file included: needed output size 0)
    for (i, f) in tiny_files().iter().enumerate() {
        if i as u32 % ctx.cfg.nshards != ctx.cfg.shard {
            continue;
        }
        let doc = json!({"kind":"c12-file","hex":hex(f),"k":3});
        ctx.set_inflight(&doc);
        ctx.class("file:tiny(0..12 bytes, deterministic)");
        if let Err(fl) = check(f, 3, ctx) {
            if !ctx.is_known(&fl) {
                ctx.record_failure(&fl, &doc);
            }
            return;
        }
    }
    let cases = match ctx.cfg.tier {
        Tier::Quick => 9_000u64,
        Tier::Thorough => 150_000u64,
    };
    let run = DnaRun {
        cases: ctx.cfg.share(cases),
        max_dna: 900,
        shrink_iters: 150,
        stream: 0,
    };
    if let Some((f, doc)) = run_dna(ctx, &run, eval_dna) {
        if doc["kind"] == "c12-file" {
            let k = doc["k"].as_u64().unwrap_or(2) as usize;
            minimise_and_record(ctx, f, doc, 800, move |cand, _doc, ctx| check(cand, k, ctx));
        } else {
            ctx.record_failure(&f, &doc);
        }
    }
}

fn replay(doc: &Value, ctx: &mut Ctx) -> Result<(), Failure> {
    if doc.get("kind").and_then(|k| k.as_str()) == Some("c12-big") {
        let f = big_file(
            doc["mib"].as_u64().unwrap_or(96) as usize,
            doc["noise_kib"].as_u64().unwrap_or(2560) as usize,
            doc["seed"].as_u64().unwrap_or(0xB16),
        );
        return check(&f, 7, ctx);
    }
    let data = doc_bytes(doc, "hex").ok_or_else(|| {
        Failure::new("C12", "harness", "bad-replay-doc", "replay document has no hex field".into())
    })?;
    if doc.get("kind").and_then(|k| k.as_str()) == Some("c12-garbage") {
        let cap = doc.get("cap").and_then(|k| k.as_u64()).unwrap_or(100) as usize;
        check_garbage(&data, cap, ctx)
    } else {
        let k = doc.get("k").and_then(|k| k.as_u64()).unwrap_or(2) as usize;
        check(&data, k, ctx)
    }
}
