//! C09 — modelling quality on mainstream compressors does not regress

use super::common::*;
use super::PropDef;
use crate::dna::{fnv64, hex_trunc, Dna};
use crate::engine::*;
use crate::gen_comp::{gen_comp_family, Family};
use crate::gen_plain::gen_plain_sized_labeled;
use serde_json::{json, Value};
use std::cell::RefCell;
use std::collections::BTreeMap;

pub static DEF: PropDef = PropDef {
    id: "C09",
    level: "exploration",
    rule: "sample: structured random plaintexts (2..160 KiB: text-like, mixed, runs, archive-like with stored blobs, steep \
(Fibonacci-like) byte statistics) x compressor grid: zlib (levels 0-9 x 5 strategies x windowBits 9-15 x memLevel 1-9; 6 % of \
the zlib cases are Z_HUFFMAN_ONLY / Z_RLE streams over units exactly one block long whose optimal code is deeper than 15 bits), \
zlib-ng 1-9, libdeflate 0-12, miniz_oxide 0-10. Oracle (aggregate, differential against the frozen reference build linked \
into the same process), per family and per stratum family x plaintext flavour (a stratum is judged only if it has at least \
100 commonly accepted streams and 20 000 reference correction bytes; the flavour is fixed by the generator before either \
build sees the stream): accepted_current >= 0.99 x accepted_reference and, over the streams both accept, \
sum |corrections_current| <= 1.03 x sum |corrections_reference|. Deterministic for a given seed. Non-trivial = both builds \
accept and the stream contains references; distinct = hash of the stream.",
    assumptions: &[
        "the measure is an aggregate over this generator's input distribution and its strata; regressions below 1% / 3% of every judged stratum pass",
        "reference = /verif/reference/preflate-ref (pinned release + recorded fixes)",
    ],
    worker,
    replay,
    exh: None,
    totality: false,
    aggregate: Some(aggregate),
};

const FAMILIES: [Family; 4] = [Family::Zlib, Family::ZlibNg, Family::Libdeflate, Family::Miniz];

#[derive(Default, Clone)]
struct Fam {
    n: u64,
    acc_ref: u64,
    acc_cur: u64,
    both: u64,
    corr_ref: u64,
    corr_cur: u64,
    /// (current - reference correction bytes, description)
    worst: Vec<(i64, String)>,
    lost: Vec<String>,
}

impl Fam {
    fn to_json(&self) -> Value {
        json!({"n": self.n, "acc_ref": self.acc_ref, "acc_cur": self.acc_cur, "both": self.both,
               "corr_ref": self.corr_ref, "corr_cur": self.corr_cur,
               "worst": self.worst.iter().map(|(d, s)| json!([d, s])).collect::<Vec<_>>(),
               "lost": self.lost})
    }
}

fn eval_one(d: &[u8], desc: &str, fam: &mut Fam, ctx: &mut Ctx) {
    ctx.eval();
    fam.n += 1;
    let rr = guard(|| preflate_ref::decompress_deflate_stream(d, true, 0).map(|r| r.prediction_corrections.len()));
    let rc = guard(|| preflate_rs::decompress_deflate_stream(d, true, 0).map(|r| r.prediction_corrections.len()));
    let a_ref = matches!(rr, Ok(Ok(_)));
    let a_cur = matches!(rc, Ok(Ok(_)));
    if a_ref {
        fam.acc_ref += 1;
    }
    if a_cur {
        fam.acc_cur += 1;
    }
    if a_ref && !a_cur && fam.lost.len() < 5 {
        fam.lost.push(format!("{} [{}]", desc, hex_trunc(d, 48)));
    }
    if let (Ok(Ok(cr)), Ok(Ok(cc))) = (rr, rc) {
        fam.both += 1;
        fam.corr_ref += cr as u64;
        fam.corr_cur += cc as u64;
        let delta = cc as i64 - cr as i64;
        if delta > 0 {
            fam.worst.push((delta, format!("{} ({} -> {} bytes)", desc, cr, cc)));
            fam.worst.sort_by(|a, b| b.0.cmp(&a.0));
            fam.worst.truncate(5);
        }
        if let Ok(Ok(sum)) = lib_parse(d) {
            if sum.blocks.iter().any(|b| b.references > 0) {
                ctx.nontrivial(fnv64(d));
            }
        }
    }
}

fn gen_case(dna: &mut Dna, family: &Family) -> (Vec<u8>, String, &'static str) {
    if matches!(family, Family::Zlib) && dna.chance(6) {
        // blocks whose optimal prefix code is deeper than the format allows (see
        // gen_block_aligned_steep): zlib's length limiting step has to be modelled
        let mem_level = [5u32, 6, 7, 7, 7, 8, 8, 8, 8, 9, 9][dna.below(11)];
        let plain = crate::gen_plain::gen_block_aligned_steep(dna, mem_level);
        let cfg = crate::gen_comp::ZCfg {
            level: dna.range(1, 9) as i32,
            strategy: [2, 2, 2, 2, 2, 2, 2, 2, 2, 3][dna.below(10)],
            window_bits: if dna.chance(50) { 15 } else { dna.range(9, 15) as i32 },
            mem_level: mem_level as i32,
            flushes: vec![],
            params_switch: None,
        };
        let d = crate::gen_comp::zlib_deflate_raw(&plain, &cfg)
            .unwrap_or_else(|| crate::gen_comp::zlib_deflate_raw(&plain, &crate::gen_comp::ZCfg::simple(6)).expect("zlib default"));
        return (d, format!("zlib {} plain={} (block-aligned-steep)", cfg.describe(), plain.len()), "block-aligned-steep");
    }
    let size = match dna.weighted(&[380, 380, 160, 72, 8]) {
        0 => dna.range(2 * 1024, 8 * 1024),
        1 => dna.range(8 * 1024, 32 * 1024),
        2 => dna.range(32 * 1024, 64 * 1024),
        3 => dna.range(64 * 1024, 160 * 1024),
        // long documents: with memLevel 1-2 these have well over a thousand blocks
        _ => dna.range(400 * 1024, 1200 * 1024),
    };
    let (plain, flavour) = gen_plain_sized_labeled(dna, size);
    let (d, desc) = gen_comp_family(dna, &plain, family);
    (d, format!("{} plain={} ({})", desc, plain.len(), flavour), flavour)
}

fn cases_for(tier: Tier) -> u64 {
    match tier {
        Tier::Quick => 16_000,
        Tier::Thorough => 200_000,
    }
}

/// runs this shard's cases; `only` restricts evaluation to one family (replay). Totals are kept
/// per family and per stratum "family|plaintext flavour" (the flavour is fixed by the generator
/// before either build sees the stream).
fn run_shard(ctx: &mut Ctx, only: Option<usize>) -> BTreeMap<String, Fam> {
    let fams: RefCell<BTreeMap<String, Fam>> = RefCell::new(BTreeMap::new());
    for f in FAMILIES.iter() {
        fams.borrow_mut().insert(f.name().to_string(), Fam::default());
    }
    let counter = RefCell::new(0usize);
    let run = DnaRun {
        cases: ctx.cfg.share(cases_for(ctx.cfg.tier)),
        max_dna: 400,
        shrink_iters: 0,
        stream: 0,
    };
    let _ = run_dna(ctx, &run, |dna_bytes, ctx| {
        let idx = {
            let mut c = counter.borrow_mut();
            *c += 1;
            (*c - 1) % 4
        };
        if let Some(o) = only {
            if o != idx {
                return Ok(());
            }
        }
        let mut dna = Dna::new(dna_bytes);
        let (d, desc, flavour) = gen_case(&mut dna, &FAMILIES[idx]);
        ctx.set_inflight(&json!({"kind":"c09-stream","hex":crate::dna::hex(&d)}));
        ctx.class(&format!("family:{}", FAMILIES[idx].name()));
        ctx.class(&format!("plaintext:{}", flavour));
        let mut f = fams.borrow_mut();
        let mut one = Fam::default();
        eval_one(&d, &desc, &mut one, ctx);
        add_into(f.get_mut(FAMILIES[idx].name()).unwrap(), &one);
        add_into(f.entry(format!("{}|{}", FAMILIES[idx].name(), flavour)).or_default(), &one);
        ctx.sample(|| sample_bytes(&desc, &d, json!({"family": FAMILIES[idx].name()})));
        Ok(())
    });
    fams.into_inner()
}

fn add_into(t: &mut Fam, f: &Fam) {
    t.n += f.n;
    t.acc_ref += f.acc_ref;
    t.acc_cur += f.acc_cur;
    t.both += f.both;
    t.corr_ref += f.corr_ref;
    t.corr_cur += f.corr_cur;
    t.worst.extend(f.worst.iter().cloned());
    t.worst.sort_by(|a, b| b.0.cmp(&a.0));
    t.worst.truncate(5);
    for l in f.lost.iter() {
        if t.lost.len() < 5 {
            t.lost.push(l.clone());
        }
    }
}

fn worker(ctx: &mut Ctx) {
    let fams = run_shard(ctx, None);
    let mut m = serde_json::Map::new();
    for (name, f) in fams.iter() {
        m.insert(name.clone(), f.to_json());
    }
    ctx.extra.insert("c09_shard".into(), Value::Object(m));
}

/// a stratum (family|flavour) is judged only when it carries enough mass for a ratio to mean
/// something: at least 100 streams both builds accept and 20 000 reference correction bytes
fn judged(name: &str, f: &Fam) -> bool {
    !name.contains('|') || (f.both >= 100 && f.corr_ref >= 20_000)
}

fn verdict(name: &str, f: &Fam) -> Option<Failure> {
    if !judged(name, f) {
        return None;
    }
    if (f.acc_cur as f64) < 0.99 * f.acc_ref as f64 {
        return Some(Failure::new(
            "C09",
            "regression",
            &format!("{}:acceptance", name),
            format!(
                "{}: current build accepts {} of {} streams, reference {} (< 99%); lost e.g. {:?}",
                name, f.acc_cur, f.n, f.acc_ref, f.lost
            ),
        ));
    }
    if (f.corr_cur as f64) > 1.03 * f.corr_ref as f64 {
        return Some(Failure::new(
            "C09",
            "regression",
            &format!("{}:correction-size", name),
            format!(
                "{}: corrections total {} bytes vs reference {} over {} streams both accept (> 103%); largest growth: {:?}",
                name, f.corr_cur, f.corr_ref, f.both, f.worst
            ),
        ));
    }
    None
}

fn merge(shards: &[Value]) -> BTreeMap<String, Fam> {
    let mut out: BTreeMap<String, Fam> = BTreeMap::new();
    for s in shards {
        if let Some(o) = s.as_object() {
            for (name, v) in o {
                let e = out.entry(name.clone()).or_default();
                let g = |k: &str| v.get(k).and_then(|x| x.as_u64()).unwrap_or(0);
                e.n += g("n");
                e.acc_ref += g("acc_ref");
                e.acc_cur += g("acc_cur");
                e.both += g("both");
                e.corr_ref += g("corr_ref");
                e.corr_cur += g("corr_cur");
                if let Some(w) = v.get("worst").and_then(|w| w.as_array()) {
                    for x in w {
                        e.worst.push((x[0].as_i64().unwrap_or(0), x[1].as_str().unwrap_or("").to_string()));
                    }
                    e.worst.sort_by(|a, b| b.0.cmp(&a.0));
                    e.worst.truncate(5);
                }
                if let Some(l) = v.get("lost").and_then(|w| w.as_array()) {
                    for x in l.iter().take(5 - e.lost.len().min(5)) {
                        e.lost.push(x.as_str().unwrap_or("").to_string());
                    }
                }
            }
        }
    }
    out
}

fn aggregate(extra: &BTreeMap<String, Vec<Value>>, cfg: &RunCfg) -> (Vec<(Failure, Value)>, Value) {
    let shards = match extra.get("c09_shard") {
        Some(s) => s,
        None => return (vec![], Value::Null),
    };
    let merged = merge(shards);
    let mut out = vec![];
    for (name, f) in merged.iter() {
        if let Some(fl) = verdict(name, f) {
            out.push((
                fl,
                json!({"kind":"c09","family":name,"seed":cfg.seed,"tier":cfg.tier.name(),"nshards":cfg.nshards,
                       "scale":cfg.scale,"totals":f.to_json()}),
            ));
        }
    }
    // every reported key is confirmed by recomputing its family's whole sample; a change that
    // moves many strata at once is reported through at most three keys (families first)
    out.sort_by_key(|(_, d)| d["family"].as_str().map(|k| (k.contains('|'), k.to_string())).unwrap_or((true, String::new())));
    out.truncate(3);
    let mut summary = serde_json::Map::new();
    for (name, f) in merged.iter().filter(|(n, f)| judged(n, f)) {
        summary.insert(
            name.clone(),
            json!({"streams": f.n, "accepted_reference": f.acc_ref, "accepted_current": f.acc_cur, "both_accept": f.both,
                   "correction_bytes_reference": f.corr_ref, "correction_bytes_current": f.corr_cur,
                   "accept_ratio": if f.acc_ref > 0 { f.acc_cur as f64 / f.acc_ref as f64 } else { 1.0 },
                   "correction_ratio": if f.corr_ref > 0 { f.corr_cur as f64 / f.corr_ref as f64 } else { 1.0 }}),
        );
    }
    (out, json!({"family_totals": summary, "thresholds": {"accept_ratio_min": 0.99, "correction_ratio_max": 1.03}}))
}

/// replay = recompute the whole family aggregate for the recorded (seed, tier, nshards)
fn replay(doc: &Value, ctx: &mut Ctx) -> Result<(), Failure> {
    if doc.get("kind").and_then(|k| k.as_str()) != Some("c09") {
        // an in-flight stream of a dead worker: both builds must at least survive it
        if let Some(d) = doc_bytes(doc, "hex") {
            let mut f = Fam::default();
            eval_one(&d, "replay", &mut f, ctx);
        }
        return Ok(());
    }
    let key = doc["family"].as_str().unwrap_or("").to_string();
    let family = key.split('|').next().unwrap_or("");
    let idx = FAMILIES.iter().position(|f| f.name() == family).ok_or_else(|| {
        Failure::new("C09", "harness", "bad-replay-doc", "unknown family".into())
    })?;
    let nshards = doc["nshards"].as_u64().unwrap_or(16) as u32;
    let tier = if doc["tier"].as_str() == Some("thorough") { Tier::Thorough } else { Tier::Quick };
    let seed = doc["seed"].as_u64().unwrap_or(1);
    let scale = doc["scale"].as_f64().unwrap_or(1.0);
    let mut total = Fam::default();
    for shard in 0..nshards {
        let mut sub = Ctx::new("C09", RunCfg { tier, seed, shard, nshards, scale });
        sub.counting = true;
        let fams = run_shard(&mut sub, Some(idx));
        if let Some(f) = fams.get(&key) {
            add_into(&mut total, f);
            ctx.evals(f.n);
        }
    }
    match verdict(&key, &total) {
        Some(f) => Err(f),
        None => Ok(()),
    }
}
