//! property definitions

use crate::engine::{Ctx, Failure};
use serde_json::Value;

pub mod c01;
pub mod c02;
pub mod c03;
pub mod c04;
pub mod c05;
pub mod c06;
pub mod c07;
pub mod c08;
pub mod c09;
pub mod c10;
pub mod c11;
pub mod c12;
pub mod c13;
pub mod c14;
pub mod common;

pub struct PropDef {
    pub id: &'static str,
    pub level: &'static str,
    pub rule: &'static str,
    pub assumptions: &'static [&'static str],
    /// runs this worker's shard (exhaustive sub-spaces and generated cases)
    pub worker: fn(&mut Ctx),
    /// evaluates one saved case with the same oracle the generators use
    pub replay: fn(&Value, &mut Ctx) -> Result<(), Failure>,
    /// enumerated sub-space `sub`, indices start..start+count
    pub exh: Option<fn(&mut Ctx, &str, u64, u64)>,
    /// does the property claim termination without panic/abort (then a confirmed abort or
    /// hang of the worker is a violation; otherwise it is reported as undecided)
    pub totality: bool,
    /// verdict over the merged per-worker `extra` records (aggregate properties)
    pub aggregate: Option<fn(&std::collections::BTreeMap<String, Vec<Value>>, &crate::engine::RunCfg) -> (Vec<(Failure, Value)>, Value)>,
}

pub fn all() -> Vec<&'static PropDef> {
    vec![&c01::DEF, &c02::DEF, &c03::DEF, &c04::DEF, &c05::DEF, &c06::DEF, &c07::DEF, &c08::DEF, &c09::DEF, &c10::DEF, &c11::DEF, &c12::DEF, &c13::DEF, &c14::DEF]
}

pub fn find(id: &str) -> Option<&'static PropDef> {
    all().into_iter().find(|p| p.id.eq_ignore_ascii_case(id))
}
