//! C07 — DEFLATE parse then re-serialise is the identity on every valid stream

use super::common::*;
use super::PropDef;
use crate::dna::{fnv64, Dna, Mix};
use crate::engine::*;
use crate::gen_stream::{gen_stream, StreamMix};
use crate::gen_syn::{build_prefix_plus_block, BitW, Tok};
use preflate_rs::verif_hooks as hooks;
use serde_json::{json, Value};

pub static DEF: PropDef = PropDef {
    id: "C07",
    level: "exploration",
    rule: "inputs: streams from the independent valid-stream generator (main source: non-zero padding, 284+31 \
for length 258, HLIT/HDIST/HCLEN slack, code 16 after a zero run, empty blocks, stored blocks with padding), real \
compressors and mutations that still parse; enumerated: every (length, distance, 258-coding) token under the fixed \
code and seeded dynamic codes, all final-padding patterns at every bit offset, all stored-block padding patterns, every dynamic header size HLIT 257..288 x HDIST 1..32. \
Oracle (hook parse_and_rewrite = parser followed directly by the block writer): rewritten bytes == D[..consumed], \
consumed <= |D|, no panic; if the hook fails although the parser alone and zlib's inflate both accept D (same consumed length), the writer refused a well-formed stream: violation. Non-trivial = at least one block parsed; distinct = hash of D[..consumed].",
    assumptions: &[
        "hook parse_and_rewrite calls parse_deflate, DeflateWriter::encode_block per block and flush_with_padding exactly as process.rs does",
    ],
    worker,
    replay,
    exh: Some(exh),
    totality: true,
    aggregate: None,
};

const MIX_C07: StreamMix = StreamMix {
    comp: 25,
    syn: 60,
    mutated: 12,
    noise: 3,
    sizes: [25, 45, 25, 5],
};

pub fn check(data: &[u8], ctx: &mut Ctx, labels: &[String]) -> Result<(), Failure> {
    ctx.eval();
    let r = guard(|| hooks::parse_and_rewrite(data).map_err(|e| err_info(&e)));
    match r {
        Err(c) => Err(panic_failure("C07", "parse_and_rewrite", &c)),
        Ok(Err(e)) => {
            // which stage failed? The parser alone decides whether the stream is in the domain;
            // an error of the WRITER on a stream the parser accepted and that the reference
            // inflater accepts too (well-formed by an independent judge) breaks the identity.
            if let Ok(Ok(sum)) = lib_parse(data) {
                let well_formed = matches!(crate::gen_comp::zlib_inflate_raw(data, 64 << 20), Some(ref z) if z.consumed == sum.consumed);
                if well_formed {
                    return Err(Failure::new(
                        "C07",
                        "rewrite-err",
                        exit_code_name(e.code),
                        format!("the parser and zlib accept the stream ({} bytes consumed) but writing the parsed blocks back fails: {}", sum.consumed, e.msg),
                    ));
                }
                ctx.class("parse:Ok,write:Err(zlib-rejects-the-stream)");
                return Ok(());
            }
            ctx.class(&format!("parse:Err:{}", exit_code_name(e.code)));
            Ok(())
        }
        Ok(Ok((rewritten, sum))) => {
            ctx.class("parse:Ok");
            if sum.consumed > data.len() {
                return Err(Failure::new(
                    "C07",
                    "mismatch",
                    "consumed>input",
                    format!("consumed {} > input {}", sum.consumed, data.len()),
                ));
            }
            if rewritten[..] != data[..sum.consumed] {
                let first = rewritten
                    .iter()
                    .zip(data[..sum.consumed].iter())
                    .position(|(a, b)| a != b)
                    .unwrap_or(rewritten.len().min(sum.consumed));
                return Err(Failure::new(
                    "C07",
                    "mismatch",
                    "rewrite!=input",
                    format!(
                        "re-serialised {} bytes vs consumed {}; first difference at byte {}",
                        rewritten.len(),
                        sum.consumed,
                        first
                    ),
                ));
            }
            ctx.nontrivial(fnv64(&data[..sum.consumed]));
            for l in summary_labels(&sum) {
                ctx.class(&l);
            }
            for l in labels {
                ctx.class(&format!("ok:{}", l));
            }
            Ok(())
        }
    }
}

fn eval_dna(dna_bytes: &[u8], ctx: &mut Ctx) -> Result<(), (Failure, Value)> {
    let mut dna = Dna::new(dna_bytes);
    let case = gen_stream(&mut dna, &MIX_C07);
    let doc = bytes_doc(&case.bytes);
    ctx.set_inflight(&doc);
    let mut labels = case.labels.clone();
    labels.push(format!("source:{}", case.source));
    let r = check(&case.bytes, ctx, &labels);
    ctx.sample(|| sample_bytes(&case.desc, &case.bytes, json!({"source": case.source})));
    r.map_err(|f| (f, doc))
}

// enumerated sub-spaces
//  "lendist": index = variant*32768 + (dist-1): all lengths (+ irregular 258) at that distance
//  "padding": index = bit_offset_case (0..8) * 256 + pattern: final padding and stored padding

fn prefix_32k() -> Vec<u8> {
    let mut m = Mix::new(0xC07);
    (0..32768).map(|_| m.u8()).collect()
}

fn lendist_stream(variant: u64, dist: u32, prefix: &[u8]) -> Vec<u8> {
    let mut toks = Vec::with_capacity(600);
    let mut m = Mix::new(variant * 50000 + dist as u64);
    for len in 3..=258u16 {
        toks.push(Tok::Ref { len, dist, irregular: false });
        toks.push(Tok::Lit(m.u8()));
    }
    toks.push(Tok::Ref { len: 258, dist, irregular: true });
    toks.push(Tok::Lit(m.u8()));
    toks.push(Tok::Ref { len: 258, dist, irregular: true });
    let seed = if variant == 0 { None } else { Some(0xA11CE + variant) };
    build_prefix_plus_block(prefix, &toks, seed).0
}

/// streams whose final block ends at every bit offset, with the given padding pattern, and
/// a stored block that starts at every bit offset with the given padding pattern
fn padding_streams(k: u64, pattern: u8) -> Vec<Vec<u8>> {
    let mut out = vec![];
    // fixed block with k literals 'a' (8 bits each) => end offset varies with k via 7-bit EOB
    // we vary the offset by prepending k empty fixed blocks (each 10 bits: 3 header + 7 EOB)
    {
        let mut w = BitW::new();
        for _ in 0..k {
            w.put(0, 1);
            w.put(1, 2);
            w.put(0, 7); // EOB in fixed code = 0000000
        }
        w.put(1, 1);
        w.put(1, 2);
        // literal 'a' = 0x61 -> code 0x30+0x61 = 0x91, 8 bits MSB first
        w.put_code(0x30 + 0x61, 8);
        w.put(0, 7);
        w.pad(pattern);
        out.push(w.out);
    }
    {
        // stored block after k empty fixed blocks, padding pattern in the alignment bits
        let mut w = BitW::new();
        for _ in 0..k {
            w.put(0, 1);
            w.put(1, 2);
            w.put(0, 7);
        }
        w.put(0, 1);
        w.put(0, 2);
        w.pad(pattern);
        w.put(3, 16);
        w.put(!3u32 & 0xffff, 16);
        w.bytes(b"xyz");
        // final empty fixed block + padding
        w.put(1, 1);
        w.put(1, 2);
        w.put(0, 7);
        w.pad(pattern.rotate_left(3));
        out.push(w.out);
    }
    out
}

fn exh(ctx: &mut Ctx, sub: &str, start: u64, count: u64) {
    let prefix = prefix_32k();
    let mut reported = std::collections::BTreeSet::new();
    for idx in start..start + count {
        let streams: Vec<Vec<u8>> = if sub == "padding" {
            padding_streams(idx / 256, (idx % 256) as u8)
        } else if sub == "headers" {
            // idx = ((hlit-257) * 32 + (hdist-1)) * 4 + variant
            let variant = idx % 4;
            let hd = (idx / 4) % 32 + 1;
            let hl = (idx / 4) / 32 + 257;
            match crate::gen_syn::header_size_stream(hl as usize, hd as usize, variant) {
                Some((s, _)) => vec![s],
                None => vec![],
            }
        } else {
            vec![lendist_stream(idx / 32768, (idx % 32768) as u32 + 1, &prefix)]
        };
        if !ctx.slow && (idx == start || idx % 64 == 0) {
            ctx.set_inflight(&json!({"kind":"exh","sub":sub,"index":idx,"block":(64 - idx % 64).min(start+count-idx)}));
        }
        for s in streams {
            if ctx.slow {
                ctx.set_inflight(&bytes_doc(&s));
            }
            let n_before = ctx.evaluations;
            let r = check(&s, ctx, &[]);
            if sub == "lendist" {
                // one stream = 259 reference tokens
                ctx.evaluations = n_before;
                ctx.evals(259);
            }
            ctx.class(&format!("exh:{}", sub));
            // the generator's streams must parse: otherwise the enumeration is vacuous
            if let Err(f) = r {
                if !ctx.is_known(&f) && reported.insert(f.sig.clone()) && reported.len() <= 4 {
                    ctx.record_failure(&f, &bytes_doc(&s));
                }
            }
        }
    }
}

fn worker(ctx: &mut Ctx) {
    let (cases, ndyn) = match ctx.cfg.tier {
        Tier::Quick => (60_000u64, 3u64),
        Tier::Thorough => (400_000u64, 8u64),
    };
    let total = (1 + ndyn) * 32768;
    let (a, b) = shard_range(total, ctx.cfg.shard, ctx.cfg.nshards);
    exh(ctx, "lendist", a, b - a);
    ctx.exhaustive.push(json!({
        "subspace": format!("(length 3..258, both codings of 258) x distance 1..32768 under the fixed code and {} seeded dynamic codes", ndyn),
        "shard_range": [a, b], "of": total, "tokens_per_index": 259
    }));
    let total_p = 8 * 256;
    let (a, b) = shard_range(total_p, ctx.cfg.shard, ctx.cfg.nshards);
    exh(ctx, "padding", a, b - a);
    ctx.exhaustive.push(json!({
        "subspace": "final-padding and stored-block padding: 256 patterns x 8 bit offsets",
        "shard_range": [a, b], "of": total_p
    }));
    let total_h = 32 * 32 * 4;
    let (a, b) = shard_range(total_h, ctx.cfg.shard, ctx.cfg.nshards);
    exh(ctx, "headers", a, b - a);
    ctx.exhaustive.push(json!({
        "subspace": "dynamic header sizes: HLIT 257..288 x HDIST 1..32 x 4 variants (trailing-zero slack or real last codes, final padding)",
        "shard_range": [a, b], "of": total_h
    }));
    ctx.set_inflight(&json!({"kind":"between"}));

    let run = DnaRun {
        cases: ctx.cfg.share(cases),
        max_dna: 700,
        shrink_iters: 300,
        stream: 0,
    };
    if let Some((f, doc)) = run_dna(ctx, &run, eval_dna) {
        minimise_and_record(ctx, f, doc, 4000, |cand, _doc, ctx| check(cand, ctx, &[]));
    }
}

fn replay(doc: &Value, ctx: &mut Ctx) -> Result<(), Failure> {
    let data = doc_bytes(doc, "hex").ok_or_else(|| {
        Failure::new("C07", "harness", "bad-replay-doc", "replay document has no hex field".into())
    })?;
    check(&data, ctx, &[])
}
