//! C05 — analysing arbitrary bytes ends in Ok or Err: no panic, no hang

use super::common::*;
use super::PropDef;
use crate::dna::{fnv64, Dna};
use crate::engine::*;
use crate::gen_stream::{gen_stream, MIX_ROBUST};
use serde_json::{json, Value};

pub static DEF: PropDef = PropDef {
    id: "C05",
    level: "exploration",
    rule: "inputs: every byte string of length <=3 (quick) / <=4 (thorough) enumerated, plus generated \
streams (real compressors, independent valid-stream generator, mutations of both, noise behind plausible \
block headers); each is given to decompress_deflate_stream with verify=false and verify=true; oracle: returns \
Ok or Err (no panic, no abort, no hang: heart-beat watchdog 600 s per case, confirmed by an 1800 s solo re-run; the slowest case of each run is reported). \
Non-trivial = the parser accepted the whole stream (estimator and predictor ran) or the input is >=4 bytes \
and starts with a non-reserved block type; distinct = hash of the input bytes.",
    assumptions: &[
        "release profile of the current /repo working tree (debug assertions and overflow checks off, as shipped)",
        "a case that exceeds the 600 s watchdog and the 1800 s solo confirmation run is called a hang (slowest legitimate cases observed: ~15 s on a loaded machine)",
    ],
    worker,
    replay,
    exh: Some(exh),
    totality: true,
    aggregate: None,
};

fn check_bytes(data: &[u8], ctx: &mut Ctx, labels: &[String]) -> Result<(), Failure> {
    let t0 = std::time::Instant::now();
    let r = check_bytes_inner(data, ctx, labels);
    // not a verdict: the slowest case is reported so that "bounded time" has a number attached
    let ms = t0.elapsed().as_millis() as u64;
    let cur = ctx.extra.get("slowest_case_ms").and_then(|v| v.as_u64()).unwrap_or(0);
    if ctx.counting && ms > cur {
        ctx.extra.insert("slowest_case_ms".into(), json!(ms));
        ctx.extra.insert("slowest_case_len".into(), json!(data.len()));
    }
    r
}

fn check_bytes_inner(data: &[u8], ctx: &mut Ctx, labels: &[String]) -> Result<(), Failure> {
    ctx.eval();
    let mut parsed_ok = false;
    for verify in [false, true] {
        match lib_split(data, verify) {
            Err(c) => {
                ctx.class("result:panic");
                return Err(panic_failure(
                    "C05",
                    &format!("decompress_deflate_stream(verify={})", verify),
                    &c,
                ));
            }
            Ok(Ok(_)) => {
                parsed_ok = true;
                if !verify {
                    ctx.class("result:Ok");
                }
            }
            Ok(Err(e)) => {
                if !verify {
                    ctx.class(&format!("result:Err:{}", exit_code_name(e.code)));
                    // errors other than parse errors mean that estimator / predictor ran
                    if !matches!(e.code, 21 | 16 | 3 | 17) {
                        parsed_ok = true;
                    }
                }
            }
        }
    }
    let plausible = data.len() >= 4 && ((data[0] >> 1) & 3) != 3;
    if parsed_ok || plausible {
        ctx.nontrivial(fnv64(data));
        if parsed_ok {
            ctx.class("nontrivial:past-parser");
        }
    }
    for l in labels {
        ctx.class(l);
    }
    Ok(())
}

fn eval_dna(dna_bytes: &[u8], ctx: &mut Ctx) -> Result<(), (Failure, Value)> {
    let mut dna = Dna::new(dna_bytes);
    let case = gen_stream(&mut dna, &MIX_ROBUST);
    let doc = bytes_doc(&case.bytes);
    ctx.set_inflight(&doc);
    let mut labels = case.labels.clone();
    labels.push(format!("source:{}", case.source));
    let r = check_bytes(&case.bytes, ctx, &labels);
    ctx.sample(|| sample_bytes(&case.desc, &case.bytes, json!({"source": case.source})));
    r.map_err(|f| (f, doc))
}

fn exh(ctx: &mut Ctx, sub: &str, start: u64, count: u64) {
    let _ = sub;
    let mut buf = [0u8; 8];
    const BLOCK: u64 = 65536;
    let mut reported = std::collections::BTreeSet::new();
    let mut i = start;
    let end = start + count;
    while i < end {
        if !ctx.slow && (i == start || i % BLOCK == 0) {
            let b = BLOCK - (i % BLOCK);
            ctx.set_inflight(&json!({"kind":"exh","sub":"short","index":i,"block":b.min(end-i)}));
        }
        let n = short_string(i, &mut buf);
        let data = &buf[..n];
        if ctx.slow {
            ctx.set_inflight(&bytes_doc(data));
        }
        ctx.evals(1);
        for verify in [false, true] {
            match lib_split(data, verify) {
                Err(c) => {
                    let f = panic_failure("C05", "decompress_deflate_stream", &c);
                    if !ctx.is_known(&f) && reported.insert(f.sig.clone()) && reported.len() <= 5 {
                        ctx.record_failure(&f, &bytes_doc(data));
                    }
                    break;
                }
                Ok(Ok(_)) => {
                    ctx.nontrivial(fnv64(data));
                    if !verify {
                        ctx.class("short:Ok");
                    }
                }
                Ok(Err(_)) => {
                    if !verify {
                        ctx.class("short:Err");
                    }
                    break; // verify cannot matter when the analysis already failed
                }
            }
        }
        i += 1;
    }
}

fn worker(ctx: &mut Ctx) {
    let (maxlen, cases) = match ctx.cfg.tier {
        Tier::Quick => (3u32, 60_000u64),
        Tier::Thorough => (4u32, 500_000u64),
    };
    // exhaustive part
    let total = short_string_count(maxlen);
    let (a, b) = shard_range(total, ctx.cfg.shard, ctx.cfg.nshards);
    exh(ctx, "short", a, b - a);
    ctx.exhaustive.push(json!({
        "subspace": format!("all byte strings of length <= {} x verify in {{false,true}}", maxlen),
        "shard_range": [a, b], "of": total
    }));
    ctx.set_inflight(&json!({"kind":"between"}));

    // generated part
    let run = DnaRun {
        cases: ctx.cfg.share(cases),
        max_dna: 700,
        shrink_iters: 400,
        stream: 0,
    };
    if let Some((f, doc)) = run_dna(ctx, &run, eval_dna) {
        minimise_and_record(ctx, f, doc, 4000, |cand, _doc, ctx| {
            check_bytes(cand, ctx, &[])
        });
    }
}

fn replay(doc: &Value, ctx: &mut Ctx) -> Result<(), Failure> {
    let data = doc_bytes(doc, "hex").ok_or_else(|| {
        Failure::new("C05", "harness", "bad-replay-doc", "replay document has no hex field".into())
    })?;
    check_bytes(&data, ctx, &[])
}
