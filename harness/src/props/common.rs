//! helpers shared by the property modules

use crate::engine::*;
use preflate_rs::verif_hooks as hooks;

#[derive(Clone, Debug, PartialEq, Eq)]
pub struct Split {
    pub plain: Vec<u8>,
    pub corr: Vec<u8>,
    pub size: usize,
}

#[derive(Clone, Debug)]
pub struct LibErr {
    pub code: i32,
    pub msg: String,
}

pub fn err_info(e: &preflate_rs::PreflateError) -> LibErr {
    LibErr {
        code: e.exit_code().as_integer_error_code(),
        msg: e.message().lines().next().unwrap_or("").to_string(),
    }
}

/// decompress_deflate_stream under catch_unwind
pub fn lib_split(data: &[u8], verify: bool) -> Result<Result<Split, LibErr>, Caught> {
    guard(|| match preflate_rs::decompress_deflate_stream(data, verify, 0) {
        Ok(r) => Ok(Split {
            plain: r.plain_text,
            corr: r.prediction_corrections,
            size: r.compressed_size,
        }),
        Err(e) => Err(err_info(&e)),
    })
}

pub fn lib_recompress(plain: &[u8], corr: &[u8]) -> Result<Result<Vec<u8>, LibErr>, Caught> {
    guard(|| match preflate_rs::recompress_deflate_stream(plain, corr) {
        Ok(v) => Ok(v),
        Err(e) => Err(err_info(&e)),
    })
}

pub fn lib_parse(data: &[u8]) -> Result<Result<hooks::ParseSummary, LibErr>, Caught> {
    guard(|| hooks::parse_summary(data).map_err(|e| err_info(&e)))
}

pub fn exit_code_name(code: i32) -> &'static str {
    match code {
        1 => "ReadDeflate",
        2 => "InvalidPredictionData",
        3 => "AnalyzeFailed",
        4 => "RecompressFailed",
        5 => "RoundtripMismatch",
        6 => "ReadBlock",
        7 => "PredictBlock",
        8 => "PredictTree",
        9 => "RecreateBlock",
        10 => "RecreateTree",
        11 => "EncodeBlock",
        12 => "InvalidCompressedWrapper",
        14 => "ZstdError",
        15 => "InvalidParameterHeader",
        16 => "ShortRead",
        17 => "OsError",
        18 => "GeneralFailure",
        19 => "InvalidIDat",
        20 => "MatchNotFound",
        21 => "InvalidDeflate",
        _ => "Other",
    }
}

/// labels describing a parsed stream
pub fn summary_labels(s: &hooks::ParseSummary) -> Vec<String> {
    let mut v = vec![];
    let mut refs = 0;
    let (mut st, mut fx, mut dy) = (0, 0, 0);
    let mut irregular = 0;
    for b in &s.blocks {
        refs += b.references;
        irregular += b.irregular258;
        match b.btype {
            0 => st += 1,
            1 => fx += 1,
            _ => dy += 1,
        }
    }
    if refs > 0 {
        v.push("parsed:has-references".to_string());
    }
    if st > 0 {
        v.push("parsed:stored-block".to_string());
    }
    if fx > 0 {
        v.push("parsed:fixed-block".to_string());
    }
    if dy > 0 {
        v.push("parsed:dynamic-block".to_string());
    }
    if irregular > 0 {
        v.push("parsed:irregular258".to_string());
    }
    if s.blocks.len() > 1 {
        v.push("parsed:multi-block".to_string());
    }
    if s.plain_text.len() > 32768 {
        v.push("parsed:plain>32KiB".to_string());
    }
    if s.plain_text.len() > 0xfe08 {
        v.push("parsed:plain>reshift(0xfe08)".to_string());
    }
    if s.eof_padding != 0 {
        v.push("parsed:nonzero-eof-padding".to_string());
    }
    v
}

pub fn has_refs_or_dynamic(s: &hooks::ParseSummary) -> bool {
    s.blocks.iter().any(|b| b.references > 0 || b.btype == 2)
}

/// number of byte strings of length <= max_len
pub fn short_string_count(max_len: u32) -> u64 {
    (0..=max_len).map(|k| 256u64.pow(k)).sum()
}

/// index -> byte string, ordered by length then little-endian value
pub fn short_string(mut index: u64, buf: &mut [u8; 8]) -> usize {
    let mut len = 0u32;
    loop {
        let n = 256u64.pow(len);
        if index < n {
            break;
        }
        index -= n;
        len += 1;
    }
    for i in 0..len as usize {
        buf[i] = (index >> (8 * i)) as u8;
    }
    len as usize
}

/// contiguous share [start, end) of `total` items for shard k of n
pub fn shard_range(total: u64, k: u32, n: u32) -> (u64, u64) {
    let per = total / n as u64;
    let rem = total % n as u64;
    let k = k as u64;
    let start = k * per + k.min(rem);
    let end = start + per + if k < rem { 1 } else { 0 };
    (start, end)
}

// --- container level ----------------------------------------------------------------------

/// The diagnostics level passed to the library: a pure function of the file (so a replay needs
/// nothing extra). 13 of 16 files use 0 (what the wrappers and the CLI pass), the rest 1, 2 or 9:
/// the level is an argument of the public function, and the listed properties quantify over it.
pub fn loglevel_for(file: &[u8]) -> u32 {
    if file.len() > (4 << 20) {
        // the library prints whole plaintexts at these levels
        return 0;
    }
    match crate::dna::fnv64(file) % 16 {
        0 => 1,
        1 => 2,
        2 => 9,
        _ => 0,
    }
}

pub fn lib_expand(file: &[u8]) -> Result<Result<Vec<u8>, LibErr>, Caught> {
    let ll = loglevel_for(file);
    guard(|| preflate_rs::expand_zlib_chunks(file, ll).map_err(|e| err_info(&e)))
}

pub fn lib_recreate(container: &[u8]) -> Result<Result<Vec<u8>, LibErr>, Caught> {
    guard(|| {
        let mut out = Vec::new();
        let mut cur = std::io::Cursor::new(container);
        match preflate_rs::recreated_zlib_chunks(&mut cur, &mut out) {
            Ok(()) => Ok(out),
            Err(e) => Err(err_info(&e)),
        }
    })
}

pub fn first_diff(a: &[u8], b: &[u8]) -> usize {
    a.iter()
        .zip(b.iter())
        .position(|(x, y)| x != y)
        .unwrap_or(a.len().min(b.len()))
}

/// labels for an expanded container, via the independent container model
pub fn container_labels(e: &[u8]) -> Result<(Vec<String>, usize), String> {
    use crate::model_container::*;
    let chunks = parse_container(e)?;
    let mut v = vec![];
    let mut nonlit = 0;
    for c in &chunks {
        match c.kind {
            ChunkKind::Literal => {}
            ChunkKind::Deflate => {
                nonlit += 1;
                v.push("container:deflate-chunk".to_string());
            }
            ChunkKind::Png => {
                nonlit += 1;
                v.push("container:png-chunk".to_string());
                if c.idat_sizes.len() > 1 {
                    v.push("container:png-multi-idat".to_string());
                }
            }
        }
    }
    if nonlit == 0 {
        v.push("container:literal-only".to_string());
    }
    if nonlit > 1 {
        v.push("container:multiple-streams".to_string());
    }
    v.sort();
    v.dedup();
    Ok((v, nonlit))
}

/// deterministic tiny files (0..=9 bytes): the empty file, single bytes that start a scanner
/// signature or a zstd magic, and short patterns. Sizes at which buffer arithmetic has its
/// smallest legal values (empty output, expanded form of 3..12 bytes).
pub fn tiny_files() -> Vec<Vec<u8>> {
    let mut v: Vec<Vec<u8>> = vec![vec![]];
    for b in [0x00u8, 0x01, 0x1f, 0x28, 0x49, 0x50, 0x78, 0xff, b'x'] {
        v.push(vec![b]);
    }
    for len in 2..=9usize {
        v.push(vec![0u8; len]);
        v.push((0..len).map(|i| b'a' + i as u8).collect());
        let mut z = vec![0x78u8, 0x9c];
        z.resize(len, 0x03);
        v.push(z);
    }
    v.push(b"PK".to_vec());
    v.push(b"hello, world".to_vec());
    v
}
