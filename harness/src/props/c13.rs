//! C13 — reconstruction tolerates fragmented I/O and fails cleanly on I/O errors

use super::common::*;
use super::PropDef;
use crate::dna::{fnv64, hex, Dna};
use crate::engine::*;
use crate::gen_file::gen_file_opts;
use crate::model_container::*;
use serde_json::{json, Value};
use std::io::{ErrorKind, Read, Write};

pub static DEF: PropDef = PropDef {
    id: "C13",
    level: "fault_enumeration",
    rule: "cases: containers E = expand_zlib_chunks(F) for files F from the container generator (5 % with a literal run of 64 KiB..210 KiB in front), fed to \
recreated_zlib_chunks through instrumented Read/Write objects. (i) fragmentation: generated per-call read sizes \
(always-1, powers of two +-1, generated cycles; never Ok(0) before EOF) x generated partial-write acceptance patterns: \
output must equal F. (ii) one injected error (Other, BrokenPipe, WouldBlock, UnexpectedEof, WriteZero, with short / long ASCII / long multi-byte UTF-8 message payloads; never Interrupted, \
which std retries by contract) at a source offset or destination offset, or a sink answering Ok(0); every other fault is transient (delivered once, after which the object accepts calls again): for containers \
<= 4 KiB EVERY source offset 0..|E| and EVERY destination offset 0..|F| is enumerated, larger ones get chunk boundaries \
+-2 plus 64 generated offsets. If the fault object reports that it fired, the call must return Err without panicking and \
the bytes the sink accepted must be a prefix of F; if it did not fire, the output must equal F. \
Non-trivial = container with at least one DEFLATE/PNG chunk; distinct = hash of (E, schedule, fault).",
    assumptions: &[
        "ErrorKind::Interrupted is not injected (read_exact / write_all retry it by contract)",
        "a source never returns Ok(0) before its end (that is EOF for Read)",
    ],
    worker,
    replay,
    exh: None,
    totality: true,
    aggregate: None,
};

/// a persistent fault that has been delivered this many times without the call returning is
/// reported (property: "the call returns Err"); far above any bounded retry policy
const SPIN_LIMIT: usize = 10_000;
const SPIN_MARK: &str = "verif-c13: persistent I/O error delivered SPIN_LIMIT times, call still running";

const KINDS: [ErrorKind; 5] = [
    ErrorKind::Other,
    ErrorKind::BrokenPipe,
    ErrorKind::WouldBlock,
    ErrorKind::UnexpectedEof,
    ErrorKind::WriteZero,
];

/// payload text of an injected error: short ASCII, long ASCII, long multi-byte UTF-8 (localized
/// OS messages, non-ASCII paths) at every byte alignment; chosen by the fault offset
fn fault_message(off: usize) -> String {
    match off % 7 {
        0 | 1 | 2 => "injected fault".to_string(),
        3 => "x".repeat(300),
        4 => format!("{}{}", "a".repeat(off % 4), "アクセスが拒否されました。ファイルを開けません: /データ/保存/圧縮ファイル.bin ".repeat(4)),
        5 => format!("{}{}", "b".repeat(off % 3), "Zugriff verweigert: Datei »/größe/übung/straße.bin« konnte nicht geöffnet werden — ".repeat(4)),
        _ => format!("{}{}", "c".repeat(off % 5), "😀 permission denied 🚫 ".repeat(12)),
    }
}

struct Src<'a> {
    data: &'a [u8],
    pos: usize,
    sizes: &'a [usize],
    call: usize,
    fault: Option<(usize, ErrorKind)>,
    fired: bool,
    /// transient fault: the error is returned once, later calls proceed normally
    transient: bool,
    /// number of times the fault was delivered (a persistent fault is delivered on every call)
    refused: usize,
}

impl<'a> Read for Src<'a> {
    fn read(&mut self, buf: &mut [u8]) -> std::io::Result<usize> {
        if buf.is_empty() {
            return Ok(0);
        }
        if let Some((off, kind)) = self.fault {
            if self.pos >= off && !(self.transient && self.fired) {
                self.fired = true;
                self.refused += 1;
                if self.refused > SPIN_LIMIT {
                    // the call has been given SPIN_LIMIT errors in a row and still has not returned:
                    // end it here (a hang would only be reported as undecided) and report it
                    panic!("{}", SPIN_MARK);
                }
                return Err(std::io::Error::new(kind, fault_message(off)));
            }
        }
        let mut n = buf.len().min(self.data.len() - self.pos);
        if !self.sizes.is_empty() {
            n = n.min(self.sizes[self.call % self.sizes.len()].max(1));
        }
        if let Some((off, _)) = self.fault {
            if !(self.transient && self.fired) {
                n = n.min(off - self.pos);
            }
        }
        self.call += 1;
        buf[..n].copy_from_slice(&self.data[self.pos..self.pos + n]);
        self.pos += n;
        Ok(n)
    }
}

struct Dst<'a> {
    accepted: Vec<u8>,
    sizes: &'a [usize],
    call: usize,
    /// (offset, Some(kind)) = error; (offset, None) = Ok(0)
    fault: Option<(usize, Option<ErrorKind>)>,
    fired: bool,
    /// transient fault: the error is returned once, later writes are accepted again
    transient: bool,
    /// number of times the fault was delivered (a persistent fault is delivered on every call)
    refused: usize,
}

impl<'a> Write for Dst<'a> {
    fn write(&mut self, buf: &[u8]) -> std::io::Result<usize> {
        if buf.is_empty() {
            return Ok(0);
        }
        if let Some((off, kind)) = self.fault {
            if self.accepted.len() >= off && !(self.transient && self.fired) {
                self.fired = true;
                self.refused += 1;
                if self.refused > SPIN_LIMIT {
                    // the call has been given SPIN_LIMIT errors in a row and still has not returned:
                    // end it here (a hang would only be reported as undecided) and report it
                    panic!("{}", SPIN_MARK);
                }
                return match kind {
                    Some(k) => Err(std::io::Error::new(k, fault_message(off))),
                    None => Ok(0),
                };
            }
        }
        let mut n = buf.len();
        if !self.sizes.is_empty() {
            n = n.min(self.sizes[self.call % self.sizes.len()].max(1));
        }
        if let Some((off, _)) = self.fault {
            if !(self.transient && self.fired) {
                n = n.min(off - self.accepted.len());
            }
        }
        self.call += 1;
        self.accepted.extend_from_slice(&buf[..n]);
        Ok(n)
    }
    /// native vectored write: the acceptance schedule applies to the concatenation of the buffers
    /// (a sink such as Cursor<&mut [u8]>, a pipe or a socket may accept part of a vectored write)
    fn write_vectored(&mut self, bufs: &[std::io::IoSlice<'_>]) -> std::io::Result<usize> {
        let total: usize = bufs.iter().map(|b| b.len()).sum();
        if total == 0 {
            return Ok(0);
        }
        if let Some((off, kind)) = self.fault {
            if self.accepted.len() >= off && !(self.transient && self.fired) {
                self.fired = true;
                self.refused += 1;
                if self.refused > SPIN_LIMIT {
                    // the call has been given SPIN_LIMIT errors in a row and still has not returned:
                    // end it here (a hang would only be reported as undecided) and report it
                    panic!("{}", SPIN_MARK);
                }
                return match kind {
                    Some(k) => Err(std::io::Error::new(k, fault_message(off))),
                    None => Ok(0),
                };
            }
        }
        let mut n = total;
        if !self.sizes.is_empty() {
            n = n.min(self.sizes[self.call % self.sizes.len()].max(1));
        }
        if let Some((off, _)) = self.fault {
            if !(self.transient && self.fired) {
                n = n.min(off - self.accepted.len());
            }
        }
        self.call += 1;
        let mut left = n;
        for b in bufs {
            let k = left.min(b.len());
            self.accepted.extend_from_slice(&b[..k]);
            left -= k;
            if left == 0 {
                break;
            }
        }
        Ok(n)
    }
    fn flush(&mut self) -> std::io::Result<()> {
        Ok(())
    }
}

#[derive(Clone, Debug)]
pub struct Plan {
    pub rsizes: Vec<usize>,
    pub wsizes: Vec<usize>,
    /// ("src"|"dst", offset, kind index 0..5, or 5 = Ok(0) for dst)
    pub fault: Option<(bool, usize, usize)>,
    /// the fault is delivered once; afterwards the object behaves normally again
    pub transient: bool,
}

fn plan_json(p: &Plan) -> Value {
    json!({"rsizes": p.rsizes, "wsizes": p.wsizes, "transient": p.transient,
           "fault": p.fault.map(|(s, o, k)| json!({"side": if s {"src"} else {"dst"}, "offset": o, "kind": k}))})
}

fn plan_from_json(v: &Value) -> Plan {
    let arr = |k: &str| -> Vec<usize> {
        v.get(k)
            .and_then(|a| a.as_array())
            .map(|a| a.iter().filter_map(|x| x.as_u64().map(|x| x as usize)).collect())
            .unwrap_or_default()
    };
    let fault = v.get("fault").and_then(|f| {
        if f.is_null() {
            None
        } else {
            Some((
                f["side"].as_str() == Some("src"),
                f["offset"].as_u64().unwrap_or(0) as usize,
                f["kind"].as_u64().unwrap_or(0) as usize,
            ))
        }
    });
    Plan {
        rsizes: arr("rsizes"),
        wsizes: arr("wsizes"),
        fault,
        transient: v.get("transient").and_then(|t| t.as_bool()).unwrap_or(false),
    }
}

/// one run of recreated_zlib_chunks under a plan
pub fn run_plan(e: &[u8], f: &[u8], plan: &Plan, ctx: &mut Ctx) -> Result<(), Failure> {
    ctx.eval();
    let mut src = Src {
        data: e,
        pos: 0,
        sizes: &plan.rsizes,
        call: 0,
        fault: None,
        fired: false,
        transient: plan.transient,
        refused: 0,
    };
    let mut dst = Dst {
        accepted: Vec::new(),
        sizes: &plan.wsizes,
        call: 0,
        fault: None,
        fired: false,
        transient: plan.transient,
        refused: 0,
    };
    let mut site = "fragmented".to_string();
    if let Some((is_src, off, kind)) = plan.fault {
        if is_src {
            src.fault = Some((off, KINDS[kind % 5]));
            site = format!("src-fault{}:{:?}", if plan.transient { "(transient)" } else { "" }, KINDS[kind % 5]);
        } else {
            dst.fault = Some((off, if kind >= 5 { None } else { Some(KINDS[kind]) }));
            let t = if plan.transient { "(transient)" } else { "" };
            site = if kind >= 5 { format!("dst-Ok(0){}", t) } else { format!("dst-fault{}:{:?}", t, KINDS[kind]) };
        }
    }
    let r = guard(|| preflate_rs::recreated_zlib_chunks(&mut src, &mut dst).map_err(|e| err_info(&e)));
    let fired = src.fired || dst.fired;
    match r {
        Err(c) if c.msg.contains(SPIN_MARK) => Err(Failure::new(
            "C13",
            "no-return",
            &format!("{}:still-running-after-{}-errors", site, SPIN_LIMIT),
            format!(
                "the fault object returned its I/O error {} times in a row and the call kept calling it instead of returning Err ({:?})",
                SPIN_LIMIT, plan.fault
            ),
        )),
        Err(c) => Err(panic_failure("C13", &format!("recreated_zlib_chunks ({})", site), &c)),
        Ok(res) => {
            if !f.starts_with(&dst.accepted) {
                return Err(Failure::new(
                    "C13",
                    "mismatch",
                    &format!("{}:written-not-a-prefix", site),
                    format!(
                        "the {} bytes accepted by the destination are not a prefix of the original file (first difference at {})",
                        dst.accepted.len(),
                        first_diff(&dst.accepted, f)
                    ),
                ));
            }
            if fired {
                match res {
                    Err(_) => {
                        ctx.class(&format!("{}:fired:Err", site));
                        Ok(())
                    }
                    Ok(()) => Err(Failure::new(
                        "C13",
                        "wrong-status",
                        &format!("{}:Ok-after-io-error", site),
                        format!("an injected I/O error was returned to the library ({:?}) but the call returned Ok", plan.fault),
                    )),
                }
            } else {
                match res {
                    Ok(()) => {
                        if dst.accepted != f {
                            return Err(Failure::new(
                                "C13",
                                "mismatch",
                                &format!("{}:output-differs", site),
                                format!("output has {} bytes, the file {}", dst.accepted.len(), f.len()),
                            ));
                        }
                        ctx.class(&format!("{}:not-fired:identical", site));
                        Ok(())
                    }
                    Err(er) => Err(Failure::new(
                        "C13",
                        "wrong-status",
                        &format!("{}:Err-without-fault:{}", site, exit_code_name(er.code)),
                        format!("no fault was delivered but the call failed: {}", er.msg),
                    )),
                }
            }
        }
    }
}

fn gen_sizes(dna: &mut Dna) -> Vec<usize> {
    match dna.below(6) {
        0 => vec![],  // unfragmented
        1 => vec![1], // always one byte
        2 => {
            let p = 1usize << dna.range(1, 12);
            vec![p - 1, p, p + 1]
        }
        3 => vec![1, 2, 3, 5, 8, 13, 21, 34, 55, 89],
        _ => {
            let n = dna.range(1, 12);
            (0..n)
                .map(|_| match dna.below(3) {
                    0 => dna.range(1, 4),
                    1 => dna.range(1, 300),
                    _ => dna.range(1, 70000),
                })
                .collect()
        }
    }
}

struct Case {
    f: Vec<u8>,
    e: Vec<u8>,
    desc: String,
}

fn eval_case(case: &Case, dna: &mut Dna, ctx: &mut Ctx) -> Result<(), (Failure, Value)> {
    let e = &case.e;
    let f = &case.f;
    let chunks = match parse_container(e) {
        Ok(c) => c,
        Err(_) => {
            ctx.discard("harness: container model failed");
            return Ok(());
        }
    };
    let nonlit = chunks.iter().filter(|c| c.kind != ChunkKind::Literal).count();
    let mk = |plan: &Plan| json!({"kind":"c13","container_hex":hex(e),"file_hex":hex(f),"plan":plan_json(plan)});
    let mut hash_acc = fnv64(e);
    // (i) fragmentation
    for _ in 0..4 {
        let plan = Plan {
            rsizes: gen_sizes(dna),
            wsizes: gen_sizes(dna),
            fault: None,
            transient: false,
        };
        hash_acc = hash_acc.rotate_left(7) ^ fnv64(plan_json(&plan).to_string().as_bytes());
        run_plan(e, f, &plan, ctx).map_err(|fl| (fl, mk(&plan)))?;
    }
    // (ii) faults
    let rs = gen_sizes(dna);
    let ws = gen_sizes(dna);
    let exhaustive = e.len() <= 4096 && f.len() <= 4096;
    let mut src_offsets: Vec<usize> = vec![];
    let mut dst_offsets: Vec<usize> = vec![];
    if exhaustive {
        src_offsets.extend(0..e.len());
        dst_offsets.extend(0..f.len());
        ctx.class("faults:every-offset");
    } else {
        for c in &chunks {
            for o in [c.tag_off, c.data_off, c.data_off + c.data_len, c.corr_off, c.corr_off + c.corr_len, c.end] {
                for d in 0..5usize {
                    let x = (o + d).saturating_sub(2);
                    if x < e.len() {
                        src_offsets.push(x);
                    }
                }
            }
        }
        for _ in 0..64 {
            src_offsets.push(dna.below(e.len().max(1)));
            dst_offsets.push(dna.below(f.len().max(1)));
        }
        if let Some(ext) = file_extents(e, &chunks, &|p, c| match lib_recompress(p, c) {
            Ok(Ok(v)) => Some(v.len()),
            _ => None,
        }) {
            for (off, len) in ext {
                for d in 0..5usize {
                    for o in [off, off + len] {
                        let x = (o + d).saturating_sub(2);
                        if x < f.len() {
                            dst_offsets.push(x);
                        }
                    }
                }
            }
        }
        src_offsets.sort();
        src_offsets.dedup();
        dst_offsets.sort();
        dst_offsets.dedup();
        ctx.class("faults:boundaries+sampled");
    }
    let mut kind_rot = dna.below(5);
    for &o in &src_offsets {
        kind_rot = (kind_rot + 1) % 5;
        let plan = Plan {
            rsizes: rs.clone(),
            wsizes: ws.clone(),
            fault: Some((true, o, kind_rot)),
            transient: (o + kind_rot) % 2 == 1,
        };
        run_plan(e, f, &plan, ctx).map_err(|fl| (fl, mk(&plan)))?;
    }
    for &o in &dst_offsets {
        kind_rot = (kind_rot + 1) % 6;
        let plan = Plan {
            rsizes: rs.clone(),
            wsizes: ws.clone(),
            fault: Some((false, o, kind_rot)),
            transient: (o + kind_rot) % 2 == 1,
        };
        run_plan(e, f, &plan, ctx).map_err(|fl| (fl, mk(&plan)))?;
    }
    ctx.class_n("fault-runs", (src_offsets.len() + dst_offsets.len()) as u64);
    if nonlit > 0 {
        ctx.nontrivial(hash_acc);
        ctx.class("container:with-expanded-stream");
        if exhaustive {
            ctx.class("container:with-expanded-stream:every-offset");
        }
    }
    ctx.sample(|| sample_bytes(&case.desc, e, json!({"file_len": f.len(), "chunks": chunks.len(), "src_faults": src_offsets.len(), "dst_faults": dst_offsets.len()})));
    Ok(())
}

fn eval_dna(dna_bytes: &[u8], ctx: &mut Ctx) -> Result<(), (Failure, Value)> {
    let mut dna = Dna::new(dna_bytes);
    // plans are read first so they do not depend on how much DNA the file eats
    let plan_dna: Vec<u8> = dna.bytes(120);
    let mut fc = gen_file_opts(&mut dna, true);
    if dna.chance(5) {
        // a literal run longer than any internal copy buffer (64 KiB and beyond) in front of
        // the generated file
        let n = [65_535usize, 65_536, 65_537, 131_072, 131_073][dna.below(5)].max(dna.range(65_000, 210_000));
        let mut m = crate::dna::Mix::new(dna.u64());
        let mut bytes: Vec<u8> = (0..n).map(|_| crate::gen_file::safe_junk_byte(&mut m)).collect();
        bytes.extend_from_slice(&fc.bytes);
        fc.bytes = bytes;
        fc.labels.push("file:literal-run>=64KiB".into());
        fc.desc = format!("{} literal bytes + {}", n, fc.desc);
    }
    ctx.set_inflight(&json!({"kind":"c13-file","file_hex":hex(&fc.bytes)}));
    let e = match lib_expand(&fc.bytes) {
        Ok(Ok(e)) => e,
        _ => {
            ctx.discard("expand_zlib_chunks failed or panicked (C01's subject)");
            return Ok(());
        }
    };
    // sanity: the unfragmented run must reproduce F, otherwise C01 is violated and C13 says nothing
    match lib_recreate(&e) {
        Ok(Ok(out)) if out == fc.bytes => {}
        _ => {
            ctx.discard("plain round trip fails (C01's subject)");
            return Ok(());
        }
    }
    for l in &fc.labels {
        ctx.class(l);
    }
    let case = Case {
        f: fc.bytes,
        e,
        desc: fc.desc,
    };
    let mut pd = Dna::new(&plan_dna);
    eval_case(&case, &mut pd, ctx)
}

fn worker(ctx: &mut Ctx) {
    let cases = match ctx.cfg.tier {
        Tier::Quick => 4_000u64,
        Tier::Thorough => 80_000u64,
    };
    let run = DnaRun {
        cases: ctx.cfg.share(cases),
        max_dna: 900,
        shrink_iters: 60,
        stream: 0,
    };
    if let Some((f, doc)) = run_dna(ctx, &run, eval_dna) {
        ctx.record_failure(&f, &doc);
    }
}

fn replay(doc: &Value, ctx: &mut Ctx) -> Result<(), Failure> {
    let bad = || Failure::new("C13", "harness", "bad-replay-doc", "replay document incomplete".into());
    if doc.get("kind").and_then(|k| k.as_str()) == Some("c13-file") {
        // in-flight record of a whole case (worker died): re-run every plan for that file
        let f = doc_bytes(doc, "file_hex").ok_or_else(bad)?;
        let e = match lib_expand(&f) {
            Ok(Ok(e)) => e,
            _ => return Ok(()),
        };
        let case = Case { f, e, desc: "replay".into() };
        let zeros = vec![0u8; 120];
        let mut pd = Dna::new(&zeros);
        return eval_case(&case, &mut pd, ctx).map_err(|(f, _)| f);
    }
    let e = doc_bytes(doc, "container_hex").ok_or_else(bad)?;
    let f = doc_bytes(doc, "file_hex").ok_or_else(bad)?;
    let plan = plan_from_json(doc.get("plan").ok_or_else(bad)?);
    run_plan(&e, &f, &plan, ctx)
}
