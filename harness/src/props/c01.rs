//! C01 — container round trip is exact and total for every byte string

use super::common::*;
use super::PropDef;
use crate::dna::{fnv64, Dna};
use crate::engine::*;
use crate::gen_file::gen_file;
use serde_json::{json, Value};

pub static DEF: PropDef = PropDef {
    id: "C01",
    level: "exploration",
    rule: "inputs F: files assembled from junk, signature look-alikes (PK, PK\\3\\4 with wild lengths, 1F 8B, \
78 xx, IDAT with and without length/CRC) and zlib/gzip/zip/PNG wrappers around streams from four real compressors and \
the independent stream generator (plaintext sizes straddling the 1024-byte threshold; PNG chunkings with zero-length \
chunks, tiny payloads, trailing bytes, bytes before the Adler-32), then truncated / bit-flipped / spliced; plus every \
byte string of length <=3 (quick) / <=4 (thorough). Oracle: expand_zlib_chunks(F, level) is Ok without panic (level = 0 for 13 files in 16, else 1, 2 or 9, a function of F); \
recreated_zlib_chunks(expanded) is Ok and writes exactly F; decompress_zstd(compress_zstd(F), |expanded|+4096) == F. \
Non-trivial = the expanded container holds at least one DEFLATE or PNG chunk (per my own container model) or F contains \
a signature look-alike; distinct = hash of F.",
    assumptions: &[
        "|F| far below 2^32 (the u32 varint truncations are out of reach)",
        "the container model only classifies; a container it cannot parse is counted as a harness discard, never a violation",
    ],
    worker,
    replay,
    exh: Some(exh),
    totality: true,
    aggregate: None,
};

fn has_signature(f: &[u8]) -> bool {
    f.windows(2).any(|w| {
        matches!(
            (w[0], w[1]),
            (0x78, 0x01) | (0x78, 0x5E) | (0x78, 0x9C) | (0x78, 0xDA) | (0x50, 0x4B) | (0x1F, 0x8B) | (0x49, 0x44)
        )
    })
}

pub fn check(f: &[u8], with_zstd: bool, ctx: &mut Ctx, labels: &[String]) -> Result<(), Failure> {
    ctx.eval();
    for l in labels {
        ctx.class(l);
    }
    let e = match lib_expand(f) {
        Err(c) => return Err(panic_failure("C01", "expand_zlib_chunks", &c)),
        Ok(Err(e)) => {
            return Err(Failure::new(
                "C01",
                "expand-err",
                exit_code_name(e.code),
                format!("expand_zlib_chunks returned Err: {}", e.msg),
            ))
        }
        Ok(Ok(e)) => e,
    };
    match lib_recreate(&e) {
        Err(c) => return Err(panic_failure("C01", "recreated_zlib_chunks", &c)),
        Ok(Err(er)) => {
            return Err(Failure::new(
                "C01",
                "recreate-err",
                exit_code_name(er.code),
                format!("expand Ok, recreated_zlib_chunks returned Err: {}", er.msg),
            ))
        }
        Ok(Ok(out)) => {
            if out != f {
                return Err(Failure::new(
                    "C01",
                    "mismatch",
                    "recreate!=input",
                    format!(
                        "round trip changed the file: {} -> {} bytes, first difference at {}",
                        f.len(),
                        out.len(),
                        first_diff(&out, f)
                    ),
                ));
            }
        }
    }
    if with_zstd {
        let r = guard(|| {
            let c = preflate_rs::compress_zstd(f, 0).map_err(|e| err_info(&e))?;
            preflate_rs::decompress_zstd(&c, e.len() + 4096).map_err(|e| err_info(&e))
        });
        match r {
            Err(c) => return Err(panic_failure("C01", "compress_zstd/decompress_zstd", &c)),
            Ok(Err(er)) => {
                return Err(Failure::new(
                    "C01",
                    "zstd-err",
                    exit_code_name(er.code),
                    format!("zstd pair returned Err: {}", er.msg),
                ))
            }
            Ok(Ok(out)) => {
                if out != f {
                    return Err(Failure::new(
                        "C01",
                        "mismatch",
                        "zstd-roundtrip!=input",
                        format!("zstd round trip changed the file; first difference at {}", first_diff(&out, f)),
                    ));
                }
            }
        }
        ctx.class("zstd-pair-checked");
    }
    match container_labels(&e) {
        Ok((ls, nonlit)) => {
            if nonlit > 0 || has_signature(f) {
                ctx.nontrivial(fnv64(f));
            }
            if nonlit > 0 {
                ctx.class("nontrivial:expanded-stream");
            }
            for l in ls {
                ctx.class(&l);
            }
        }
        Err(why) => {
            ctx.discard(&format!("harness: container model cannot parse a container that round-trips ({})", why));
        }
    }
    Ok(())
}

fn eval_dna(dna_bytes: &[u8], ctx: &mut Ctx) -> Result<(), (Failure, Value)> {
    let mut dna = Dna::new(dna_bytes);
    let case = gen_file(&mut dna);
    let doc = bytes_doc(&case.bytes);
    ctx.set_inflight(&doc);
    let r = check(&case.bytes, true, ctx, &case.labels);
    ctx.sample(|| sample_bytes(&case.desc, &case.bytes, json!({"embedded": case.embedded.len(), "mutated": case.mutated})));
    r.map_err(|f| (f, doc))
}

fn exh(ctx: &mut Ctx, sub: &str, start: u64, count: u64) {
    let _ = sub;
    let mut buf = [0u8; 8];
    const BLOCK: u64 = 16384;
    let mut reported = std::collections::BTreeSet::new();
    for i in start..start + count {
        if !ctx.slow && (i == start || i % BLOCK == 0) {
            ctx.set_inflight(&json!({"kind":"exh","sub":"short","index":i,"block":(BLOCK - i % BLOCK).min(start+count-i)}));
        }
        let n = short_string(i, &mut buf);
        let data = &buf[..n];
        if ctx.slow {
            ctx.set_inflight(&bytes_doc(data));
        }
        // the zstd pair is expensive (a fresh level-9 context per call): all strings of
        // length <= 2 and every 61st longer one
        let with_zstd = n <= 2 || i % 61 == 0;
        if let Err(f) = check(data, with_zstd, ctx, &[]) {
            if !ctx.is_known(&f) && reported.insert(f.sig.clone()) && reported.len() <= 5 {
                ctx.record_failure(&f, &bytes_doc(data));
            }
        }
    }
}

fn worker(ctx: &mut Ctx) {
    let (maxlen, cases) = match ctx.cfg.tier {
        Tier::Quick => (3u32, 20_000u64),
        Tier::Thorough => (4u32, 150_000u64),
    };
    let total = short_string_count(maxlen);
    let (a, b) = shard_range(total, ctx.cfg.shard, ctx.cfg.nshards);
    exh(ctx, "short", a, b - a);
    ctx.exhaustive.push(json!({
        "subspace": format!("all byte strings of length <= {} (zstd pair on all of length <= 2 and every 61st longer one)", maxlen),
        "shard_range": [a, b], "of": total
    }));
    ctx.set_inflight(&json!({"kind":"between"}));
    let run = DnaRun {
        cases: ctx.cfg.share(cases),
        max_dna: 900,
        shrink_iters: 300,
        stream: 0,
    };
    if let Some((f, doc)) = run_dna(ctx, &run, eval_dna) {
        minimise_and_record(ctx, f, doc, 2500, |cand, _doc, ctx| check(cand, true, ctx, &[]));
    }
}

fn replay(doc: &Value, ctx: &mut Ctx) -> Result<(), Failure> {
    let data = doc_bytes(doc, "hex").ok_or_else(|| {
        Failure::new("C01", "harness", "bad-replay-doc", "replay document has no hex field".into())
    })?;
    check(&data, true, ctx, &[])
}
