//! C10 — the correction codec is lossless for every operation sequence

use super::common::*;
use super::PropDef;
use crate::dna::{fnv64, Dna, Mix};
use crate::engine::*;
use preflate_rs::verif_hooks::{cabac_roundtrip, CodecOp, CORRECTION_CONTEXTS, MISPREDICTION_CONTEXTS};
use serde_json::{json, Value};

pub static DEF: PropDef = PropDef {
    id: "C10",
    level: "exploration",
    rule: "cases: operation sequences of 0..4000 operations (1 %: with a default run of 2^8..2^20 operations in front) mixing fixed-width values (1..16 bits, v < 2^bits), \
misprediction flags in the 7 contexts (biased to false so that default runs form) and correction values in the 10 \
contexts with bit length uniform in 0..31 (v < 2^31); enumerated: every single-operation sequence (all 131070 values, \
all corrections v < 2^17 in each context, all 14 flags) and every pair from a 40-element representative set. \
Oracle (hook cabac_roundtrip: production encoder over VP8Writer, finish, production decoder driven by the same \
operation kinds): decoded sequence == encoded sequence, no panic. Non-trivial = at least 2 operations with at least \
one non-default; distinct = hash of the sequence.",
    assumptions: &["correction values >= 2^31 are outside the property"],
    worker,
    replay,
    exh: Some(exh),
    totality: true,
    aggregate: None,
};

fn op_json(op: &CodecOp) -> Value {
    match *op {
        CodecOp::Value(v, b) => json!(["V", v, b]),
        CodecOp::Misprediction(c, v) => json!(["M", c, v]),
        CodecOp::Correction(c, v) => json!(["C", c, v]),
    }
}

fn op_from_json(v: &Value) -> Option<CodecOp> {
    let a = v.as_array()?;
    match a.first()?.as_str()? {
        "V" => Some(CodecOp::Value(a[1].as_u64()? as u16, a[2].as_u64()? as u8)),
        "M" => Some(CodecOp::Misprediction(a[1].as_u64()? as u8, a[2].as_bool()?)),
        "C" => Some(CodecOp::Correction(a[1].as_u64()? as u8, a[2].as_u64()? as u32)),
        _ => None,
    }
}

/// ops as JSON; runs of a repeating period (1 or 2 identical operations) are stored as ["R", count, [ops...]]
fn ops_doc(ops: &[CodecOp]) -> Value {
    let mut out: Vec<Value> = Vec::new();
    let mut i = 0;
    while i < ops.len() {
        let mut done = false;
        for period in [1usize, 2] {
            if i + period * 8 <= ops.len() {
                let mut reps = 1;
                while i + (reps + 1) * period <= ops.len()
                    && (0..period).all(|k| ops[i + reps * period + k] == ops[i + k])
                {
                    reps += 1;
                }
                if reps >= 8 {
                    out.push(json!(["R", reps, ops[i..i + period].iter().map(op_json).collect::<Vec<_>>()]));
                    i += reps * period;
                    done = true;
                    break;
                }
            }
        }
        if !done {
            out.push(op_json(&ops[i]));
            i += 1;
        }
    }
    json!({"kind":"c10","ops": out})
}

fn ops_from_doc(doc: &Value) -> Option<Vec<CodecOp>> {
    let a = doc.get("ops")?.as_array()?;
    let mut ops = vec![];
    for v in a {
        let arr = v.as_array()?;
        if arr.first()?.as_str()? == "R" {
            let reps = arr[1].as_u64()? as usize;
            let unit: Vec<CodecOp> = arr[2].as_array()?.iter().filter_map(op_from_json).collect();
            for _ in 0..reps {
                ops.extend_from_slice(&unit);
            }
        } else {
            ops.push(op_from_json(v)?);
        }
    }
    Some(ops)
}

fn ops_hash(ops: &[CodecOp]) -> u64 {
    let mut bytes = Vec::with_capacity(ops.len() * 6);
    for op in ops {
        match *op {
            CodecOp::Value(v, b) => {
                bytes.push(1);
                bytes.extend_from_slice(&v.to_le_bytes());
                bytes.push(b);
            }
            CodecOp::Misprediction(c, v) => {
                bytes.extend_from_slice(&[2, c, v as u8]);
            }
            CodecOp::Correction(c, v) => {
                bytes.extend_from_slice(&[3, c]);
                bytes.extend_from_slice(&v.to_le_bytes());
            }
        }
    }
    fnv64(&bytes)
}

pub fn check(ops: &[CodecOp], ctx: &mut Ctx) -> Result<(), Failure> {
    ctx.eval();
    match guard(|| cabac_roundtrip(ops)) {
        Err(c) => Err(panic_failure("C10", "cabac_roundtrip", &c)),
        Ok((_enc, dec)) => {
            if dec.len() != ops.len() {
                return Err(Failure::new("C10", "mismatch", "length", format!("{} ops in, {} out", ops.len(), dec.len())));
            }
            if let Some(i) = (0..ops.len()).find(|&i| ops[i] != dec[i]) {
                let kind = match ops[i] {
                    CodecOp::Value(..) => "value",
                    CodecOp::Misprediction(..) => "misprediction",
                    CodecOp::Correction(..) => "correction",
                };
                return Err(Failure::new(
                    "C10",
                    "mismatch",
                    kind,
                    format!("operation {} of {}: encoded {:?}, decoded {:?}", i, ops.len(), ops[i], dec[i]),
                ));
            }
            let nondefault = ops.iter().any(|o| match *o {
                CodecOp::Value(..) => true,
                CodecOp::Misprediction(_, v) => v,
                CodecOp::Correction(_, v) => v != 0,
            });
            if ops.len() >= 2 && nondefault {
                ctx.nontrivial(ops_hash(ops));
            }
            Ok(())
        }
    }
}

fn gen_op(m: &mut Mix, false_pct: u32, zero_pct: u32, wv: u32, wm: u32) -> CodecOp {
    let r = m.below(100) as u32;
    if r < wv {
        let bits = m.range(1, 16) as u8;
        let v = (m.next() & ((1u64 << bits) - 1)) as u16;
        CodecOp::Value(v, bits)
    } else if r < wv + wm {
        CodecOp::Misprediction(m.below(MISPREDICTION_CONTEXTS as usize) as u8, !m.chance(false_pct))
    } else {
        let v = if m.chance(zero_pct) {
            0
        } else {
            let bl = m.range(0, 31);
            if bl == 0 {
                0
            } else {
                ((1u64 << (bl - 1)) | (m.next() & ((1u64 << (bl - 1)) - 1))) as u32
            }
        };
        CodecOp::Correction(m.below(CORRECTION_CONTEXTS as usize) as u8, v)
    }
}

fn gen_ops(dna: &mut Dna) -> Vec<CodecOp> {
    let nruns = dna.range(1, 6);
    let mut ops = vec![];
    for _ in 0..nruns {
        let n = match dna.weighted(&[30, 40, 24, 5, 1]) {
            0 => dna.range(0, 6),
            1 => dna.range(6, 100),
            2 => dna.range(100, 800),
            3 => dna.range(800, 4000),
            _ => {
                // a very long run of defaults (perfectly predicted real streams produce runs of
                // 10^5..10^6 default operations), length near a power of two, then go on
                let k = dna.range(8, 18);
                let len = ((1usize << k) as i64 + dna.range(0, 4) as i64 - 2).max(1) as usize;
                let ctxm = dna.below(MISPREDICTION_CONTEXTS as usize) as u8;
                let ctxc = dna.below(CORRECTION_CONTEXTS as usize) as u8;
                let mixed = dna.bool();
                for i in 0..len {
                    if mixed && i % 2 == 1 {
                        ops.push(CodecOp::Correction(ctxc, 0));
                    } else {
                        ops.push(CodecOp::Misprediction(ctxm, false));
                    }
                }
                dna.range(0, 6)
            }
        };
        let false_pct = [0u32, 50, 90, 99, 100][dna.below(5)];
        let zero_pct = [0u32, 50, 90, 99][dna.below(4)];
        // the last three mixes use a single kind of operation (only flags / only values / only corrections)
        let (wv, wm) = [(10u32, 45u32), (0, 50), (34, 33), (2, 10), (80, 10), (0, 100), (100, 0), (0, 0)][dna.below(8)];
        let mut m = Mix::new(dna.u64());
        for _ in 0..n {
            ops.push(gen_op(&mut m, false_pct, zero_pct, wv, wm));
            if ops.len() >= 4000 && ops.len() < 5000 {
                return ops;
            }
        }
    }
    ops
}

pub fn doc_from_dna(dna_bytes: &[u8]) -> Value {
    let mut dna = Dna::new(dna_bytes);
    ops_doc(&gen_ops(&mut dna))
}

fn eval_dna(dna_bytes: &[u8], ctx: &mut Ctx) -> Result<(), (Failure, Value)> {
    let mut dna = Dna::new(dna_bytes);
    let ops = gen_ops(&mut dna);
    ctx.set_inflight(&ops_doc(&ops));
    let r = check(&ops, ctx);
    ctx.class(match ops.len() {
        0..=5 => "len:0-5",
        6..=99 => "len:6-99",
        100..=799 => "len:100-799",
        _ => "len:800+",
    });
    ctx.sample(|| json!({"ops": ops.len(), "first": ops.iter().take(12).map(op_json).collect::<Vec<_>>()}));
    r.map_err(|f| (f, ops_doc(&ops)))
}

/// representative single operations for the pair enumeration
fn representatives() -> Vec<CodecOp> {
    let mut v = vec![];
    for &(val, bits) in &[(0u16, 1u8), (1, 1), (0, 8), (255, 8), (0x1234, 16), (0xffff, 16), (5, 3)] {
        v.push(CodecOp::Value(val, bits));
    }
    for c in 0..MISPREDICTION_CONTEXTS {
        v.push(CodecOp::Misprediction(c, false));
        v.push(CodecOp::Misprediction(c, true));
    }
    for (i, &val) in [0u32, 1, 2, 3, 127, 128, 255, 256, 65535, 65536, (1 << 20) + 1, (1 << 30) + 12345, (1u32 << 31) - 1, 0, 1, 2, 7, 8, 9].iter().enumerate() {
        v.push(CodecOp::Correction((i % CORRECTION_CONTEXTS as usize) as u8, val));
    }
    v.truncate(40);
    v
}

// sub-spaces: "values" (131070), "corrections" (10 x 2^17), "flags" (14), "pairs" (40 x 40)
fn exh_size(sub: &str) -> u64 {
    match sub {
        "values" => (1..=16u32).map(|b| 1u64 << b).sum(),
        "corrections" => (CORRECTION_CONTEXTS as u64) << 17,
        "flags" => 2 * MISPREDICTION_CONTEXTS as u64,
        "pairs" => 1600,
        // default runs of length 2^k + {-2..2}, k = 1..18, ended by each kind of operation (x3)
        // and by nothing (x1)
        "runs" => 18 * 5 * 4,
        _ => 0,
    }
}

fn exh_case(sub: &str, idx: u64, reps: &[CodecOp]) -> Vec<CodecOp> {
    match sub {
        "values" => {
            let mut i = idx;
            let mut bits = 1u32;
            while i >= (1u64 << bits) {
                i -= 1u64 << bits;
                bits += 1;
            }
            vec![CodecOp::Value(i as u16, bits as u8)]
        }
        "corrections" => vec![CodecOp::Correction((idx >> 17) as u8, (idx & 0x1ffff) as u32)],
        "flags" => vec![CodecOp::Misprediction((idx / 2) as u8, idx % 2 == 1)],
        "runs" => {
            let k = idx / 20 + 1;
            let off = (idx % 20) / 4;
            let end = idx % 4;
            let len = ((1i64 << k) + off as i64 - 2).max(1) as usize;
            let mut v: Vec<CodecOp> = (0..len)
                .map(|i| if k % 2 == 0 && i % 2 == 1 { CodecOp::Correction((k % 10) as u8, 0) } else { CodecOp::Misprediction((k % 7) as u8, false) })
                .collect();
            match end {
                0 => {}
                1 => v.push(CodecOp::Value(0x1234, 16)),
                2 => v.push(CodecOp::Misprediction(3, true)),
                _ => v.push(CodecOp::Correction(4, 77)),
            }
            if end != 0 {
                v.push(CodecOp::Value(5, 3));
            }
            v
        }
        _ => vec![reps[(idx / 40) as usize], reps[(idx % 40) as usize]],
    }
}

fn exh(ctx: &mut Ctx, sub: &str, start: u64, count: u64) {
    let reps = representatives();
    let mut reported = 0;
    for idx in start..start + count {
        if !ctx.slow && (idx == start || idx % 4096 == 0) {
            ctx.set_inflight(&json!({"kind":"exh","sub":sub,"index":idx,"block":(4096 - idx % 4096).min(start+count-idx)}));
        }
        let ops = exh_case(sub, idx, &reps);
        if ctx.slow {
            ctx.set_inflight(&ops_doc(&ops));
        }
        if let Err(f) = check(&ops, ctx) {
            if !ctx.is_known(&f) && reported < 3 {
                reported += 1;
                ctx.record_failure(&f, &ops_doc(&ops));
            }
        }
    }
}

fn worker(ctx: &mut Ctx) {
    let cases = match ctx.cfg.tier {
        Tier::Quick => 200_000u64,
        Tier::Thorough => 1_200_000u64,
    };
    for sub in ["values", "corrections", "flags", "pairs", "runs"] {
        let total = exh_size(sub);
        let (a, b) = shard_range(total, ctx.cfg.shard, ctx.cfg.nshards);
        exh(ctx, sub, a, b - a);
        ctx.exhaustive.push(json!({"subspace": format!("single-operation sequences: {}", sub), "shard_range": [a, b], "of": total}));
    }
    ctx.set_inflight(&json!({"kind":"between"}));
    let run = DnaRun {
        cases: ctx.cfg.share(cases),
        max_dna: 120,
        shrink_iters: 2000,
        stream: 0,
    };
    if let Some((f, doc)) = run_dna(ctx, &run, eval_dna) {
        // concrete minimisation: drop operations while the same failure persists
        let mut ops: Vec<CodecOp> = ops_from_doc(&doc).unwrap_or_default();
        let was = ctx.counting;
        ctx.counting = false;
        let mut chunk = (ops.len() / 2).max(1);
        let mut budget = 4000;
        while chunk >= 1 && budget > 0 {
            let mut i = 0;
            let mut changed = false;
            while i < ops.len() && budget > 0 {
                let end = (i + chunk).min(ops.len());
                let mut cand = ops[..i].to_vec();
                cand.extend_from_slice(&ops[end..]);
                budget -= 1;
                match check(&cand, ctx) {
                    Err(f2) if f2.sig == f.sig => {
                        ops = cand;
                        changed = true;
                    }
                    _ => i += chunk,
                }
            }
            if chunk == 1 && !changed {
                break;
            }
            if chunk > 1 {
                chunk /= 2;
            }
        }
        ctx.counting = was;
        ctx.record_failure(&f, &ops_doc(&ops));
    }
}

fn replay(doc: &Value, ctx: &mut Ctx) -> Result<(), Failure> {
    let ops: Vec<CodecOp> = ops_from_doc(doc)
        .ok_or_else(|| Failure::new("C10", "harness", "bad-replay-doc", "no ops".into()))?;
    let _ = err_info;
    check(&ops, ctx)
}
