//! Coverage-guided stage of the thorough tier: builds the cargo-fuzz targets (libFuzzer,
//! -O, no debug assertions, no sanitizer), seeds a fresh corpus from the generators,
//! runs a fixed number of executions, replays every artefact through `pfv replay` and
//! merges the statistics into the evidence file.

use crate::dna::{fnv64, Mix};
use crate::engine::*;
use crate::fuzzglue;
use crate::props::PropDef;
use serde_json::{json, Value};
use std::path::PathBuf;
use std::process::{Command, Stdio};

pub fn target_for(id: &str) -> Option<&'static str> {
    match id {
        "C01" => Some("c01_file"),
        "C02" => Some("c02_stream"),
        "C03" => Some("c03_inflate"),
        "C05" => Some("c05_raw"),
        "C07" => Some("c07_rewrite"),
        "C10" => Some("c10_codec"),
        _ => None,
    }
}

fn fuzz_dir() -> PathBuf {
    verif_root().join("harness").join("fuzz")
}

/// seed corpus: empty input, DNA inputs (mode byte 1) and raw generated cases (mode byte 0)
fn gen_corpus(id: &str, dir: &PathBuf, seed: u64, n: usize) -> usize {
    let _ = std::fs::create_dir_all(dir);
    let mut m = Mix::new(seed ^ fnv64(id.as_bytes()));
    let mut count = 0;
    let mut put = |bytes: &[u8]| {
        let name = format!("seed-{:016x}", fnv64(bytes));
        let _ = std::fs::write(dir.join(name), bytes);
        count += 1;
    };
    put(&[]);
    for i in 0..n {
        let len = 40 + m.below(500);
        let mut dna = vec![1u8];
        dna.extend((0..len).map(|_| m.u8()));
        put(&dna);
        if i % 2 == 0 {
            // the same case as raw bytes, so that byte-level mutation starts from valid data
            let doc = fuzzglue::decode(id, &dna);
            if let Some(b) = doc_bytes(&doc, "hex") {
                if b.len() <= 3000 {
                    let mut raw = vec![0u8];
                    raw.extend_from_slice(&b);
                    put(&raw);
                }
            }
        }
    }
    count
}

/// returns exit code (0 ok, 1 violation, 2 undecided)
pub fn run(def: &'static PropDef, runs: u64, seed: u64) -> i32 {
    let target = match target_for(def.id) {
        Some(t) => t,
        None => return 0,
    };
    let t0 = std::time::Instant::now();
    let fd = fuzz_dir();
    let work = out_root().join("work").join(format!("fuzz-{}", def.id));
    let _ = std::fs::remove_dir_all(&work);
    let corpus = work.join("corpus");
    let artifacts = work.join("artifacts");
    std::fs::create_dir_all(&artifacts).unwrap();
    let seeds = gen_corpus(def.id, &corpus, seed, 120);

    // build
    let mut build = Command::new("cargo");
    build
        .current_dir(&fd)
        .env("CARGO_NET_OFFLINE", "true")
        .args(["+nightly", "fuzz", "build", "-O", "-s", "none", target]);
    let st = build.stdout(Stdio::null()).stderr(Stdio::piped()).output();
    match st {
        Ok(o) if o.status.success() => {}
        Ok(o) => {
            println!("UNDECIDED: fuzz build failed: {}", String::from_utf8_lossy(&o.stderr).lines().rev().take(5).collect::<Vec<_>>().join(" | "));
            return 2;
        }
        Err(e) => {
            println!("UNDECIDED: cannot run cargo fuzz: {}", e);
            return 2;
        }
    }
    let bin = fd.join("target/x86_64-unknown-linux-gnu/release").join(target);
    let jobs = std::thread::available_parallelism().map(|n| n.get()).unwrap_or(16).min(16);
    let per_job = (runs / jobs as u64).max(1);
    let mut children = vec![];
    for j in 0..jobs {
        let log = std::fs::File::create(work.join(format!("fuzz-{}.log", j))).unwrap();
        let child = Command::new(&bin)
            .current_dir(&work)
            .arg(&corpus)
            .arg(format!("-artifact_prefix={}/", artifacts.display()))
            .arg(format!("-runs={}", per_job))
            .arg(format!("-seed={}", seed.wrapping_mul(1000).wrapping_add(j as u64 + 1) & 0x7fff_ffff))
            .args(["-max_len=4096", "-len_control=0", "-timeout=1200", "-rss_limit_mb=4096", "-print_final_stats=1", "-verbosity=0", "-report_slow_units=120"])

            .stdin(Stdio::null())
            .stdout(Stdio::null())
            .stderr(log)
            .spawn();
        if let Ok(c) = child {
            children.push(c);
        }
    }
    for mut c in children {
        let _ = c.wait();
    }
    // statistics
    let mut executed = 0u64;
    let mut new_units = 0u64;
    for j in 0..jobs {
        if let Ok(t) = std::fs::read_to_string(work.join(format!("fuzz-{}.log", j))) {
            for line in t.lines() {
                if let Some(v) = line.strip_prefix("stat::number_of_executed_units:") {
                    executed += v.trim().parse::<u64>().unwrap_or(0);
                }
                if let Some(v) = line.strip_prefix("stat::new_units_added:") {
                    new_units += v.trim().parse::<u64>().unwrap_or(0);
                }
            }
        }
    }
    // artefacts
    let mut violations = vec![];
    let mut undecided = vec![];
    let mut seen = std::collections::BTreeSet::new();
    if let Ok(rd) = std::fs::read_dir(&artifacts) {
        let mut files: Vec<PathBuf> = rd.filter_map(|e| e.ok().map(|e| e.path())).collect();
        files.sort();
        for f in files {
            let fname = f.file_name().unwrap().to_string_lossy().to_string();
            if fname.starts_with("slow-unit-") {
                continue; // slow is not a verdict
            }
            let raw = match std::fs::read(&f) {
                Ok(r) => r,
                Err(_) => continue,
            };
            let mut doc = fuzzglue::decode(def.id, &raw);
            if let Some(o) = doc.as_object_mut() {
                o.insert("property".into(), json!(def.id));
                o.insert("found_by".into(), json!(format!("libFuzzer target {} artefact {}", target, f.file_name().unwrap().to_string_lossy())));
            }
            let rp = out_root().join("replays").join(format!("{}-fuzz-{:016x}.json", def.id, fnv64(&raw)));
            let _ = std::fs::create_dir_all(rp.parent().unwrap());
            std::fs::write(&rp, serde_json::to_string_pretty(&doc).unwrap()).unwrap();
            let out = Command::new(std::env::current_exe().unwrap())
                .args(["replay", def.id, &rp.to_string_lossy()])
                .stdin(Stdio::null())
                .stderr(Stdio::null())
                .output();
            match out {
                Ok(o) => {
                    let text = String::from_utf8_lossy(&o.stdout).to_string();
                    let verdict = text.lines().find_map(|l| l.strip_prefix("PFV-VERDICT ").map(|s| s.to_string()));
                    match verdict {
                        Some(v) if v.starts_with("FAIL sig=") => {
                            let sig = v["FAIL sig=".len()..].to_string();
                            if seen.insert(sig.clone()) {
                                violations.push((sig, rp.to_string_lossy().to_string()));
                            }
                        }
                        Some(v) if v.starts_with("KNOWN") || v.starts_with("PASS") => {
                            // timeout-/oom- artefacts of the instrumented build that complete in
                            // the release build are slow cases, not verdicts
                            if v.starts_with("PASS") && !(fname.starts_with("timeout-") || fname.starts_with("oom-")) {
                                undecided.push(format!("fuzzer artefact {} does not reproduce through replay", f.display()));
                            }
                        }
                        _ => {
                            use std::os::unix::process::ExitStatusExt;
                            if o.status.signal().is_some() && def.totality {
                                let sig = format!("{}/abort/signal-{}", def.id, o.status.signal().unwrap());
                                if seen.insert(sig.clone()) {
                                    violations.push((sig, rp.to_string_lossy().to_string()));
                                }
                            } else {
                                undecided.push(format!("replay of fuzzer artefact {} gave no verdict", f.display()));
                            }
                        }
                    }
                }
                Err(e) => undecided.push(format!("cannot replay {}: {}", f.display(), e)),
            }
        }
    }
    // merge into the evidence file written by the PBT stage
    let evp = out_root().join("evidence").join(format!("{}.json", def.id));
    if let Ok(raw) = std::fs::read(&evp) {
        if let Ok(mut ev) = serde_json::from_slice::<Value>(&raw) {
            let wall = t0.elapsed().as_secs_f64();
            if let Some(cov) = ev.get_mut("coverage").and_then(|c| c.as_object_mut()) {
                cov.insert(
                    "fuzz".into(),
                    json!({"engine":"cargo-fuzz / libFuzzer (coverage-guided, -O, no debug assertions, sanitizer none: the library is safe Rust and ASan cut throughput 3x)", "target": target, "runs_requested": runs,
                           "executed_units": executed, "corpus_seeds": seeds, "new_units": new_units, "jobs": jobs,
                           "wall_s": wall, "violations": violations.len(), "undecided": undecided}),
                );
                let ev_n = cov.get("evaluations").and_then(|v| v.as_u64()).unwrap_or(0);
                cov.insert("evaluations".into(), json!(ev_n + executed));
            }
            if let Some(v) = ev.get("violations").and_then(|v| v.as_u64()) {
                ev["violations"] = json!(v + violations.len() as u64);
            }
            if let Some(w) = ev.get("wall_s").and_then(|v| v.as_f64()) {
                ev["wall_s"] = json!(w + wall);
            }
            let _ = std::fs::write(&evp, serde_json::to_string_pretty(&ev).unwrap());
        }
    }
    println!(
        "{} fuzz target={} executed={} seeds={} new_units={} wall={:.1}s",
        def.id,
        target,
        executed,
        seeds,
        new_units,
        t0.elapsed().as_secs_f64()
    );
    for (sig, rp) in violations.iter() {
        println!("failure signature: {}", sig);
        println!("VIOLATION property={} replay={}", def.id, rp);
    }
    if !violations.is_empty() {
        return 1;
    }
    if !undecided.is_empty() {
        for u in undecided {
            println!("UNDECIDED: {}", u);
        }
        return 2;
    }
    0
}
