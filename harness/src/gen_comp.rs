//! G-COMP: raw DEFLATE streams from the real compressors in the cargo cache
//! (system zlib through libz-sys, zlib-ng, libdeflate, miniz_oxide) and the reference
//! inflater (system zlib, raw mode) used as the independent oracle for C03.

use crate::dna::Dna;
use std::mem::MaybeUninit;

#[derive(Clone, Debug)]
pub struct ZCfg {
    pub level: i32,
    pub strategy: i32,
    pub window_bits: i32,
    pub mem_level: i32,
    /// (input offset, flush kind 1=partial 2=sync 3=full 5=block)
    pub flushes: Vec<(usize, i32)>,
    /// (input offset, level, strategy): deflateParams switch in mid-stream
    pub params_switch: Option<(usize, i32, i32)>,
}

impl ZCfg {
    pub fn simple(level: i32) -> Self {
        ZCfg {
            level,
            strategy: 0,
            window_bits: 15,
            mem_level: 8,
            flushes: vec![],
            params_switch: None,
        }
    }
    pub fn describe(&self) -> String {
        format!(
            "l{} s{} w{} m{} f{:?} p{:?}",
            self.level, self.strategy, self.window_bits, self.mem_level, self.flushes,
            self.params_switch
        )
    }
}

macro_rules! zlib_like_deflate {
    ($fname:ident, $m:ident, $init:expr) => {
        pub fn $fname(input: &[u8], cfg: &ZCfg) -> Option<Vec<u8>> {
            use $m::*;
            unsafe {
                let mut strm_u = MaybeUninit::<z_stream>::zeroed();
                let strm = strm_u.as_mut_ptr();
                let init: unsafe fn(*mut z_stream, &ZCfg) -> i32 = $init;
                if init(strm, cfg) != Z_OK {
                    return None;
                }
                let mut out: Vec<u8> = Vec::with_capacity(input.len() / 2 + 1024);
                let mut buf = vec![0u8; 64 * 1024];

                // event list: (offset, kind) sorted; kind 100 = params switch
                let mut events: Vec<(usize, i32)> = cfg
                    .flushes
                    .iter()
                    .map(|&(o, k)| (o.min(input.len()), k))
                    .collect();
                if let Some((o, _, _)) = cfg.params_switch {
                    events.push((o.min(input.len()), 100));
                }
                events.sort();
                events.push((input.len(), Z_FINISH));

                let mut pos = 0usize;
                for (off, kind) in events {
                    let off = off.max(pos);
                    (*strm).next_in = input.as_ptr().add(pos) as *mut _;
                    (*strm).avail_in = (off - pos) as u32;
                    pos = off;
                    if kind == 100 {
                        // feed pending input with NO_FLUSH first, then switch parameters
                        loop {
                            (*strm).next_out = buf.as_mut_ptr();
                            (*strm).avail_out = buf.len() as u32;
                            let r = deflate(strm, Z_NO_FLUSH);
                            let produced = buf.len() - (*strm).avail_out as usize;
                            out.extend_from_slice(&buf[..produced]);
                            if r != Z_OK && r != Z_BUF_ERROR {
                                deflateEnd(strm);
                                return None;
                            }
                            if (*strm).avail_in == 0 && (*strm).avail_out != 0 {
                                break;
                            }
                        }
                        let (_, l, s) = cfg.params_switch.unwrap();
                        // deflateParams may need output space to flush the current block
                        loop {
                            (*strm).next_out = buf.as_mut_ptr();
                            (*strm).avail_out = buf.len() as u32;
                            let r = deflateParams(strm, l, s);
                            let produced = buf.len() - (*strm).avail_out as usize;
                            out.extend_from_slice(&buf[..produced]);
                            if r == Z_OK {
                                break;
                            }
                            if r != Z_BUF_ERROR {
                                deflateEnd(strm);
                                return None;
                            }
                        }
                        continue;
                    }
                    loop {
                        (*strm).next_out = buf.as_mut_ptr();
                        (*strm).avail_out = buf.len() as u32;
                        let r = deflate(strm, kind);
                        let produced = buf.len() - (*strm).avail_out as usize;
                        out.extend_from_slice(&buf[..produced]);
                        if kind == Z_FINISH {
                            if r == Z_STREAM_END {
                                break;
                            }
                            if r != Z_OK && r != Z_BUF_ERROR {
                                deflateEnd(strm);
                                return None;
                            }
                        } else {
                            if r != Z_OK && r != Z_BUF_ERROR {
                                deflateEnd(strm);
                                return None;
                            }
                            if (*strm).avail_out != 0 {
                                break;
                            }
                        }
                    }
                }
                deflateEnd(strm);
                Some(out)
            }
        }
    };
}

mod zsys {
    pub use libz_sys::*;
}
mod zng {
    pub use libz_ng_sys::*;
}

unsafe fn init_zlib(strm: *mut libz_sys::z_stream, cfg: &ZCfg) -> i32 {
    libz_sys::deflateInit2_(
        strm,
        cfg.level,
        libz_sys::Z_DEFLATED,
        -cfg.window_bits,
        cfg.mem_level,
        cfg.strategy,
        libz_sys::zlibVersion(),
        std::mem::size_of::<libz_sys::z_stream>() as i32,
    )
}

unsafe fn init_zng(strm: *mut libz_ng_sys::z_stream, cfg: &ZCfg) -> i32 {
    libz_ng_sys::deflateInit2_(
        strm,
        cfg.level,
        libz_ng_sys::Z_DEFLATED,
        -cfg.window_bits,
        cfg.mem_level,
        cfg.strategy,
        libz_ng_sys::zlibVersion(),
        std::mem::size_of::<libz_ng_sys::z_stream>() as i32,
    )
}

zlib_like_deflate!(zlib_deflate_raw, zsys, init_zlib);
zlib_like_deflate!(zng_deflate_raw, zng, init_zng);

pub fn libdeflate_raw(input: &[u8], level: i32) -> Option<Vec<u8>> {
    use libdeflate_sys::*;
    unsafe {
        let c = libdeflate_alloc_compressor(level);
        if c.is_null() {
            return None;
        }
        let bound = libdeflate_deflate_compress_bound(c, input.len());
        let mut out = vec![0u8; bound + 16];
        let sz = libdeflate_deflate_compress(
            c,
            input.as_ptr() as *const _,
            input.len(),
            out.as_mut_ptr() as *mut _,
            out.len(),
        );
        libdeflate_free_compressor(c);
        if sz == 0 {
            return None;
        }
        out.truncate(sz);
        Some(out)
    }
}

pub fn miniz_raw(input: &[u8], level: u8, extra_flags: u32) -> Vec<u8> {
    use miniz_oxide::deflate::core::{
        compress, create_comp_flags_from_zip_params, CompressorOxide, TDEFLFlush, TDEFLStatus,
    };
    let flags = create_comp_flags_from_zip_params(level as i32, 0, 0) | extra_flags;
    let mut c = CompressorOxide::new(flags);
    let mut output = vec![0u8; std::cmp::max(input.len() / 2, 64)];
    let mut inp = input;
    let mut out_pos = 0;
    loop {
        let (status, bytes_in, bytes_out) =
            compress(&mut c, inp, &mut output[out_pos..], TDEFLFlush::Finish);
        out_pos += bytes_out;
        inp = &inp[bytes_in..];
        match status {
            TDEFLStatus::Done => {
                output.truncate(out_pos);
                break;
            }
            TDEFLStatus::Okay => {
                if output.len() - out_pos < 30 {
                    let l = output.len();
                    output.resize(l * 2, 0);
                }
            }
            _ => panic!("miniz_oxide compress failed"),
        }
    }
    output
}

#[derive(Clone, Debug, PartialEq, Eq)]
pub enum Family {
    Zlib,
    ZlibNg,
    Libdeflate,
    Miniz,
}

impl Family {
    pub fn name(&self) -> &'static str {
        match self {
            Family::Zlib => "zlib",
            Family::ZlibNg => "zlib-ng",
            Family::Libdeflate => "libdeflate",
            Family::Miniz => "miniz_oxide",
        }
    }
}

#[derive(Clone, Debug)]
pub struct CompChoice {
    pub family: Family,
    pub desc: String,
}

fn gen_zcfg(dna: &mut Dna, input_len: usize, min_level: i32, allow_tricks: bool) -> ZCfg {
    let level = dna.range(min_level as usize, 9) as i32;
    // strategy: default 60%, others 10% each
    let strategy = [0, 1, 2, 3, 4][dna.weighted(&[60, 10, 10, 10, 10])];
    let window_bits = if dna.chance(35) { dna.range(9, 15) as i32 } else { 15 };
    let mem_level = if input_len > 300 * 1024 && dna.chance(50) {
        dna.range(1, 2) as i32
    } else if dna.chance(35) {
        dna.range(1, 9) as i32
    } else {
        8
    };
    let mut flushes = vec![];
    let mut params_switch = None;
    let (mut level, mut mem_level) = (level, mem_level);
    if allow_tricks && dna.chance(10) {
        // "block storm": tiny blocks (memLevel 1-2: a block every 127/255 tokens) and many
        // flushes, with lazy matching, so that block boundaries meet every predictor state
        mem_level = dna.range(1, 2) as i32;
        if dna.chance(70) {
            level = dna.range(4, 9) as i32;
        }
        let n = dna.range(5, 40);
        let mut m = crate::dna::Mix::new(dna.u64());
        for _ in 0..n {
            flushes.push((m.below(input_len + 1), [1, 2, 3, 5, 5, 5][m.below(6)]));
        }
    }
    if allow_tricks {
        let nfl = dna.weighted(&[70, 15, 10, 5]);
        for _ in 0..nfl {
            let off = dna.below(input_len + 1);
            let kind = [1, 2, 3, 5][dna.below(4)];
            flushes.push((off, kind));
        }
        if dna.chance(12) {
            let off = dna.below(input_len + 1);
            let l = dna.range(0, 9) as i32;
            let s = [0, 1, 2, 3, 4][dna.below(5)];
            params_switch = Some((off, l, s));
        }
    }
    ZCfg {
        level,
        strategy,
        window_bits,
        mem_level,
        flushes,
        params_switch,
    }
}

/// pick a compressor + configuration from DNA and compress `plain` to raw DEFLATE
pub fn gen_comp(dna: &mut Dna, plain: &[u8]) -> (Vec<u8>, CompChoice) {
    // zlib 45, zlib-ng 20, libdeflate 20, miniz 15
    match dna.weighted(&[45, 20, 20, 15]) {
        0 => {
            let cfg = gen_zcfg(dna, plain.len(), 0, true);
            match zlib_deflate_raw(plain, &cfg) {
                Some(v) => (
                    v,
                    CompChoice {
                        family: Family::Zlib,
                        desc: format!("zlib {}", cfg.describe()),
                    },
                ),
                None => {
                    let cfg = ZCfg::simple(6);
                    (
                        zlib_deflate_raw(plain, &cfg).expect("zlib default"),
                        CompChoice {
                            family: Family::Zlib,
                            desc: format!("zlib(fallback) {}", cfg.describe()),
                        },
                    )
                }
            }
        }
        1 => {
            let cfg = gen_zcfg(dna, plain.len(), 1, true);
            match zng_deflate_raw(plain, &cfg) {
                Some(v) => (
                    v,
                    CompChoice {
                        family: Family::ZlibNg,
                        desc: format!("zlib-ng {}", cfg.describe()),
                    },
                ),
                None => {
                    let cfg = ZCfg::simple(6);
                    (
                        zng_deflate_raw(plain, &cfg).expect("zng default"),
                        CompChoice {
                            family: Family::ZlibNg,
                            desc: format!("zlib-ng(fallback) {}", cfg.describe()),
                        },
                    )
                }
            }
        }
        2 => {
            let level = dna.range(0, 12) as i32;
            (
                libdeflate_raw(plain, level).expect("libdeflate"),
                CompChoice {
                    family: Family::Libdeflate,
                    desc: format!("libdeflate l{}", level),
                },
            )
        }
        _ => {
            use miniz_oxide::deflate::core::deflate_flags::*;
            let level = dna.range(0, 10) as u8;
            let mut flags = 0;
            let mut d = String::new();
            if dna.chance(10) {
                flags |= TDEFL_GREEDY_PARSING_FLAG;
                d.push_str(" greedy");
            }
            if dna.chance(8) {
                flags |= TDEFL_RLE_MATCHES;
                d.push_str(" rle");
            }
            if dna.chance(8) {
                flags |= TDEFL_FILTER_MATCHES;
                d.push_str(" filter");
            }
            if dna.chance(8) {
                flags |= TDEFL_FORCE_ALL_STATIC_BLOCKS;
                d.push_str(" static");
            }
            if dna.chance(4) {
                flags |= TDEFL_FORCE_ALL_RAW_BLOCKS;
                d.push_str(" raw");
            }
            (
                miniz_raw(plain, level, flags),
                CompChoice {
                    family: Family::Miniz,
                    desc: format!("miniz_oxide l{}{}", level, d),
                },
            )
        }
    }
}

/// Mainstream grid for C09: plain settings only (no flush tricks), stratified by family
pub fn gen_comp_family(dna: &mut Dna, plain: &[u8], family: &Family) -> (Vec<u8>, String) {
    match family {
        Family::Zlib => {
            let cfg = gen_zcfg(dna, plain.len(), 0, false);
            let v = zlib_deflate_raw(plain, &cfg).unwrap_or_else(|| {
                zlib_deflate_raw(plain, &ZCfg::simple(6)).expect("zlib default")
            });
            (v, format!("zlib {}", cfg.describe()))
        }
        Family::ZlibNg => {
            let mut cfg = gen_zcfg(dna, plain.len(), 1, false);
            cfg.strategy = 0;
            let v = zng_deflate_raw(plain, &cfg)
                .unwrap_or_else(|| zng_deflate_raw(plain, &ZCfg::simple(6)).expect("zng default"));
            (v, format!("zlib-ng {}", cfg.describe()))
        }
        Family::Libdeflate => {
            let level = dna.range(0, 12) as i32;
            (
                libdeflate_raw(plain, level).expect("libdeflate"),
                format!("libdeflate l{}", level),
            )
        }
        Family::Miniz => {
            let level = dna.range(0, 10) as u8;
            (miniz_raw(plain, level, 0), format!("miniz_oxide l{}", level))
        }
    }
}

/// Result of the reference inflater
#[derive(Debug)]
pub struct Inflated {
    pub plain: Vec<u8>,
    pub consumed: usize,
}

/// System zlib `inflate` in raw mode with a 32 KiB window. `Some` only for Z_STREAM_END.
/// `max_out` bounds the output (None is returned beyond it).
pub fn zlib_inflate_raw(data: &[u8], max_out: usize) -> Option<Inflated> {
    use libz_sys::*;
    unsafe {
        let mut strm_u = MaybeUninit::<z_stream>::zeroed();
        let strm = strm_u.as_mut_ptr();
        if inflateInit2_(
            strm,
            -15,
            zlibVersion(),
            std::mem::size_of::<z_stream>() as i32,
        ) != Z_OK
        {
            return None;
        }
        (*strm).next_in = data.as_ptr() as *mut _;
        (*strm).avail_in = data.len() as u32;
        let mut out: Vec<u8> = Vec::new();
        let mut buf = vec![0u8; 64 * 1024];
        let res;
        loop {
            (*strm).next_out = buf.as_mut_ptr();
            (*strm).avail_out = buf.len() as u32;
            let r = inflate(strm, Z_NO_FLUSH);
            let produced = buf.len() - (*strm).avail_out as usize;
            out.extend_from_slice(&buf[..produced]);
            if r == Z_STREAM_END {
                res = Some(Inflated {
                    plain: std::mem::take(&mut out),
                    consumed: (*strm).total_in as usize,
                });
                break;
            }
            if r != Z_OK {
                res = None;
                break;
            }
            if out.len() > max_out {
                res = None;
                break;
            }
            if produced == 0 && (*strm).avail_in == 0 {
                // truncated
                res = None;
                break;
            }
        }
        inflateEnd(strm);
        res
    }
}

pub fn adler32(data: &[u8]) -> u32 {
    let mut a: u32 = 1;
    let mut b: u32 = 0;
    for chunk in data.chunks(5552) {
        for &x in chunk {
            a += x as u32;
            b += a;
        }
        a %= 65521;
        b %= 65521;
    }
    (b << 16) | a
}
